//! C08 — word-level division, inverse, roots (DESIGN.md section 2, C08).
//!
//! Checks (one case type each):
//!   "div"            Dividers::{new, modu16, divmod64, modu63, modi64, mod_u128, mod_uint, divmod_uint}
//!                    vs native `/ %` (u16/u64/i128/u128) and bnum `/ %`
//!   "inverter"       Inverter::{new, invert}: x * inv == 1 (mod p), inv < p
//!   "inv_mod64"      Some(x) <=> gcd = 1, n*x == 1 (mod p), x < p
//!   "sqrt_mod"       Some(r) => r^2 == a (mod p), r < p; None <=> Jacobi symbol -1; a == 0 => Some(0)
//!   "pow_mod"        vs left-to-right exponentiation over bnum / u128
//!   "isqrt"          arith::isqrt (u64, U256, U512, U1024) and squfof::isqrt (hook): r^2 <= n < (r+1)^2
//!   "perfect_power"  Some((r,k)) => r^k == n, k >= 2, r no perfect q-th power (q <= 19 prime);
//!                    None => n no perfect q-th power for q in {2,..,19}
//!
//! Domains follow the documented / implicit preconditions read from arith.rs and its callers:
//! Dividers::new: p prime < 2^30; modu63: n < 2^63; Inverter: p < 2^28, 1 <= x < p;
//! inv_mod64: n, p < 2^63 (cast to i64), p >= 2; sqrt_mod: p prime, p < 2^24 for u64 (the `exp2 < 24`
//! assertion and the factor-base range), multiword primes = 3 mod 4 with p^2 below the type width;
//! pow_mod: p >= 2 with (p-1)^2 below the type width (`mulmod` is a plain product);
//! perfect_power: n >= 2 (0 and 1 recurse forever; never passed by the callers).

use bnum::BUint;
use proptest::prelude::*;
use rayon::prelude::*;
use serde::{Deserialize, Serialize};
use serde_json::{json, Value};
use std::collections::BTreeMap;
use std::sync::atomic::{AtomicU32, Ordering};
use std::sync::{Mutex, OnceLock};

use super::c06::chk_filter;
use crate::engine::{catch, guard, replay_as, Ctx, Fail, Local, PropDef};
use crate::gen::{edgy, edgy128, edgy64, pick_idx};
use crate::oracle::int::{
    certified_prime, gcd64, jacobi, jacobi64, prime64, ref_isprime64, ref_isqrt, resize, widen, Ref,
    SplitMix, U1024,
};
use crate::oracle::word::{
    checked_pow, is_perfect_power_of, powmod_ltr, powmod_ltr64, prime_index_at_least, primes24, ROOT_PRIMES,
};
use yamaquasi::arith::{self, Dividers, Inverter};

pub const DEF: PropDef = PropDef {
    id: "C08",
    level: "exploration",
    chk_child: true,
    run,
    replay,
};

const PROP: &str = "C08";

// ---------------------------------------------------------------------------
// "div"

#[derive(Clone, Debug, Serialize, Deserialize)]
pub struct DivCase {
    pub p: u32,
    /// scalar operand: its low 16 / 64 bits feed the 16 / 64-bit routines
    #[serde(with = "crate::ser::u128s")]
    pub n: u128,
    /// multiword operand, used modulo 2^(64*words)
    #[serde(with = "crate::ser::dec")]
    pub w: U1024,
    /// 1, 2, 4, 8 or 16
    pub words: usize,
    #[serde(default)]
    pub shape: String,
}

fn wrong(entry: &str, what: String) -> Fail {
    Fail::new(format!("{}|wrong-result", entry), what)
}

/// All scalar routines on one operand; no guard (the caller catches).
fn div_scalar_raw(d: &Dividers, p: u32, n: u128) -> Result<(), Fail> {
    let p64 = p as u64;
    let n16 = n as u16;
    let r = d.modu16(n16);
    if r != (n16 as u32 % p) as u16 {
        return Err(wrong("Dividers::modu16", format!("p={} modu16({}) = {} != {}", p, n16, r, n16 as u32 % p)));
    }
    let n64 = n as u64;
    let qr = d.divmod64(n64);
    if qr != (n64 / p64, n64 % p64) {
        return Err(wrong(
            "Dividers::divmod64",
            format!("p={} divmod64({}) = {:?} != ({}, {})", p, n64, qr, n64 / p64, n64 % p64),
        ));
    }
    for n63 in [n64 >> 1, n64 & (u64::MAX >> 1)] {
        let r = d.modu63(n63);
        if r != n63 % p64 {
            return Err(wrong("Dividers::modu63", format!("p={} modu63({}) = {} != {}", p, n63, r, n63 % p64)));
        }
    }
    let i = n64 as i64;
    let r = d.modi64(i);
    let want = (i as i128).rem_euclid(p as i128) as u64;
    if r != want {
        return Err(wrong("Dividers::modi64", format!("p={} modi64({}) = {} != {}", p, i, r, want)));
    }
    let r = d.mod_u128(n);
    if r != (n % p as u128) as u64 {
        return Err(wrong("Dividers::mod_u128", format!("p={} mod_u128({}) = {} != {}", p, n, r, n % p as u128)));
    }
    Ok(())
}

fn div_multi_raw<const N: usize>(d: &Dividers, p: u32, w: &U1024) -> Result<(), Fail> {
    let x: BUint<N> = resize(w);
    let pp = BUint::<N>::from(p as u64);
    let (q, r) = (x / pp, (x % pp).digits()[0]);
    let got = d.mod_uint(&x);
    if got != r {
        return Err(wrong(
            &format!("Dividers::mod_uint<{}>", N),
            format!("p={} mod_uint({}) = {} != {}", p, x, got, r),
        ));
    }
    let (gq, gr) = d.divmod_uint(&x);
    if gq != q || gr != r {
        return Err(wrong(
            &format!("Dividers::divmod_uint<{}>", N),
            format!("p={} divmod_uint({}) = ({}, {}) != ({}, {})", p, x, gq, gr, q, r),
        ));
    }
    Ok(())
}

fn div_multi_dispatch(d: &Dividers, p: u32, w: &U1024, words: usize) -> Result<(), Fail> {
    match words {
        1 => div_multi_raw::<1>(d, p, w),
        2 => div_multi_raw::<2>(d, p, w),
        4 => div_multi_raw::<4>(d, p, w),
        8 => div_multi_raw::<8>(d, p, w),
        16 => div_multi_raw::<16>(d, p, w),
        _ => Err(Fail::new("HARNESS|bad-words", "words must be 1, 2, 4, 8 or 16")),
    }
}

/// Guarded evaluation of one (p, n, w): a panic is attributed to the routine that raised it.
fn div_eval(p: u32, n: u128, w: &U1024, words: usize) -> Result<(), Fail> {
    let d = guard("Dividers::new", || Dividers::new(p))?;
    match catch(|| div_scalar_raw(&d, p, n).and_then(|_| div_multi_dispatch(&d, p, w, words))) {
        Ok(r) => r,
        Err(_) => {
            // find the routine
            let n64 = n as u64;
            guard("Dividers::modu16", || d.modu16(n as u16))?;
            guard("Dividers::divmod64", || d.divmod64(n64))?;
            guard("Dividers::modu63", || (d.modu63(n64 >> 1), d.modu63(n64 & (u64::MAX >> 1))))?;
            guard("Dividers::modi64", || d.modi64(n64 as i64))?;
            guard("Dividers::mod_u128", || d.mod_u128(n))?;
            guard(&format!("Dividers::mod_uint<{}>", words), || match words {
                1 => d.mod_uint(&resize::<16, 1>(w)),
                2 => d.mod_uint(&resize::<16, 2>(w)),
                4 => d.mod_uint(&resize::<16, 4>(w)),
                8 => d.mod_uint(&resize::<16, 8>(w)),
                _ => d.mod_uint(w),
            })?;
            guard(&format!("Dividers::divmod_uint<{}>", words), || match words {
                1 => d.divmod_uint(&resize::<16, 1>(w)).1,
                2 => d.divmod_uint(&resize::<16, 2>(w)).1,
                4 => d.divmod_uint(&resize::<16, 4>(w)).1,
                8 => d.divmod_uint(&resize::<16, 8>(w)).1,
                _ => d.divmod_uint(w).1,
            })?;
            Err(Fail::new("HARNESS|panic-not-reproduced", "a Dividers routine panicked once and not again"))
        }
    }
}

/// 2^64 mod p, computed natively (for classification only).
fn r64_of(p: u32) -> u64 {
    ((1u128 << 64) % p as u128) as u64
}

/// Does mod_u128's reduction take the carry branch on n?  (own re-computation of the intermediate)
fn u128_carry(p: u32, n: u128) -> bool {
    let (n0, n1) = (n as u64, (n >> 64) as u64);
    if n1 == 0 {
        return false;
    }
    let r = r64_of(p) as u128;
    let pr = n1 as u128 * r + n0 as u128;
    let hi = (pr >> 64) as u64 as u128 * r;
    (pr as u64 as u128 + hi) >> 64 != 0
}

/// Number of Horner steps of mod_uint that take the carry branch (own re-computation).
fn uint_carries(p: u32, w: &U1024, words: usize) -> u32 {
    let r = r64_of(p) as u128;
    let nd = w.digits();
    let mut pol = nd[words - 1];
    let mut c = 0;
    for i in 2..=words {
        if pol == 0 {
            pol = nd[words - i];
        } else {
            let pr = pol as u128 * r + nd[words - i] as u128;
            let hi = (pr >> 64) as u64 as u128 * r;
            let s = pr as u64 as u128 + hi;
            pol = if s >> 64 != 0 {
                c += 1;
                (s as u64).wrapping_add(r as u64)
            } else {
                s as u64
            };
        }
    }
    c
}

fn near_pow2(n: u128, p: u32) -> bool {
    if n == 0 {
        return false;
    }
    let b = 128 - n.leading_zeros();
    let lowpow = 1u128 << (b - 1);
    let d1 = n - lowpow;
    let d2 = if b == 128 { u128::MAX - n } else { (1u128 << b) - n };
    d1.min(d2) <= 2 * p as u128
}

pub fn check_div(c: &DivCase, l: &mut Local) -> Result<(), Fail> {
    l.case();
    if c.p >> 30 != 0 || !ref_isprime64(c.p as u64) {
        return Err(Fail::new("HARNESS|out-of-domain", format!("p = {} is not a prime below 2^30", c.p)));
    }
    let words = c.words;
    if ![1, 2, 4, 8, 16].contains(&words) {
        return Err(Fail::new("HARNESS|bad-words", "words must be 1, 2, 4, 8 or 16"));
    }
    l.label(&format!("div:shape:{}", if c.shape.is_empty() { "replay" } else { &c.shape }));
    l.label(match c.p {
        0..=0xffff => "div:p<2^16",
        0x10000..=0xffffff => "div:p<2^24",
        _ => "div:p<2^30",
    });
    if u128_carry(c.p, c.n) {
        l.label("div:mod_u128:carry-branch");
    }
    let mut mask = U1024::MAX;
    if words < 16 {
        mask = (U1024::ONE << (64 * words as u32)) - U1024::ONE;
    }
    let w = c.w & mask;
    if words > 1 && uint_carries(c.p, &w, words) > 0 {
        l.label("div:mod_uint:carry-branch");
    }
    if words > 1 && w.bits() > 64 {
        l.label("div:multiword");
    }
    if near_pow2(c.n, c.p) || near_pow2(c.n as u64 as u128, c.p) || w.bits() > 64 {
        l.nontrivial_of(&("div", c.p, c.n, w.digits(), words));
    }
    let r = div_eval(c.p, c.n, &w, words);
    chk_filter(PROP, "div", c, l, r)
}

/// Prime divisors < 2^30 of 2^k +- 1 (sparse / periodic reciprocals).
fn special_primes() -> &'static Vec<u32> {
    static S: OnceLock<Vec<u32>> = OnceLock::new();
    S.get_or_init(|| {
        let mut v = vec![];
        // (a) every prime q < 2^20 for which 2 has multiplicative order <= 256 (q divides 2^k - 1, and
        //     2^(k/2) + 1 for even k, with k <= 256): periodic reciprocals
        let small: Vec<u64> = primes24().iter().take_while(|&&q| q < 1 << 20).map(|&q| q as u64).collect();
        for &q in small.iter().skip(1) {
            let mut x = 2 % q;
            for _ in 1..=256 {
                if x == 1 {
                    v.push(q as u32);
                    break;
                }
                x = 2 * x % q;
            }
        }
        // (b) 2^k +- 1 for k <= 64 (128-bit arithmetic): trial division by the primes below 2^20; a
        //     prime cofactor below 2^30 is kept too (641 * 6700417, 274177 | 2^64 + 1, 3 * 715827883, ...)
        for k in 2..=64u32 {
            for n in [(1u128 << k) - 1, (1u128 << k) + 1] {
                let mut m = n;
                for &q in &small {
                    let q = q as u128;
                    if q * q > m {
                        break;
                    }
                    if m % q == 0 {
                        v.push(q as u32);
                        while m % q == 0 {
                            m /= q;
                        }
                    }
                }
                if m > 1 && m < 1 << 30 && ref_isprime64(m as u64) {
                    v.push(m as u32);
                }
            }
        }
        // primes just below the structural limits
        for lim in [1u64 << 8, 1 << 12, 1 << 16, 1 << 20, 1 << 24, 1 << 28, 1 << 30, 1 << 27, 189_812_531] {
            let mut q = lim - 1;
            let mut cnt = 0;
            while cnt < 6 && q > 2 {
                if ref_isprime64(q) {
                    v.push(q as u32);
                    cnt += 1;
                }
                q -= 1;
            }
            // and just above (still below 2^30)
            let mut q = lim + 1;
            let mut cnt = 0;
            while cnt < 3 && q < 1 << 30 {
                if ref_isprime64(q) {
                    v.push(q as u32);
                    cnt += 1;
                }
                q += 1;
            }
        }
        v.sort();
        v.dedup();
        v
    })
}

const BOUNDS: [u32; 12] = [8, 15, 16, 31, 32, 62, 63, 64, 96, 126, 127, 128];

/// p-adjacent operand near 2^b: (floor(2^b / p) + j) * p + delta  (mod 2^128)
fn near_multiple(p: u32, b: u32, j: i32, delta: i32) -> u128 {
    let p = p as u128;
    let base = if b >= 128 { u128::MAX } else { 1u128 << b };
    let m = (base / p) * p;
    m.wrapping_add((j as i128 as u128).wrapping_mul(p)).wrapping_add(delta as i128 as u128)
}

fn near_multiple_big(p: u32, k: u32, j: i32, delta: i32) -> U1024 {
    // around 2^(64k), k = 1..=16 (k = 16: top of the type)
    let pp = U1024::from(p as u64);
    let base = if k >= 16 { U1024::MAX } else { U1024::ONE << (64 * k) };
    let m = (base / pp) * pp;
    let mut x = m;
    let adj = |x: U1024, v: i32, unit: U1024| -> U1024 {
        if v >= 0 {
            x.wrapping_add(unit * U1024::from(v as u64))
        } else {
            x.wrapping_sub(unit * U1024::from((-v) as u64))
        }
    };
    x = adj(x, j, pp);
    adj(x, delta, U1024::ONE)
}

/// Operand whose mod_u128 reduction lands within `small` of the carry: lo = 2^64 - 1 - small.
fn carry_u128(p: u32, n1: u64, small: u64) -> u128 {
    let r = r64_of(p) as u128;
    let t = n1 as u128 * r;
    let n0 = (u64::MAX - small).wrapping_sub(t as u64);
    ((n1 as u128) << 64) | n0 as u128
}

/// Multiword operand whose Horner steps are steered to the carry branch where `steer` has a set bit.
fn carry_uint(p: u32, words: usize, seed: u64, steer: u32, small: u64) -> U1024 {
    let r = r64_of(p) as u128;
    let mut rng = SplitMix(seed);
    let mut d = [0u64; 16];
    d[words - 1] = rng.next() | (1 << 63);
    let mut pol = d[words - 1];
    for i in 2..=words {
        let idx = words - i;
        let t = pol as u128 * r;
        let digit = if (steer >> (i % 32)) & 1 == 1 {
            // low word of pr = 2^64 - 1 - small
            (u64::MAX - small % 3).wrapping_sub(t as u64)
        } else {
            rng.next()
        };
        d[idx] = digit;
        if pol == 0 {
            pol = digit;
        } else {
            let pr = t + digit as u128;
            let hi = (pr >> 64) as u64 as u128 * r;
            let s = pr as u64 as u128 + hi;
            pol = if s >> 64 != 0 { (s as u64).wrapping_add(r as u64) } else { s as u64 };
        }
    }
    U1024::from_digits(d)
}

fn pick_prime(sel: u8, i: u16, r: u64) -> u32 {
    let pr = primes24();
    match sel % 10 {
        0 | 1 => pr[pick_idx(i, 6542)],                  // p < 2^16
        2 => pr[pick_idx(i, 564)],                       // p < 2^12
        3 | 4 => pr[pick_idx(i, pr.len())],              // p < 2^24
        5 | 6 => {
            let s = special_primes();
            s[pick_idx(i, s.len())]
        }
        7 => pr[pr.len() - 1 - pick_idx(i, 2000)], // just below 2^24
        _ => {
            let mut rng = SplitMix(r);
            prime64(25 + (i as u32 % 6), &mut rng) as u32 // 25..30 bits
        }
    }
}

pub fn div_strategy() -> impl Strategy<Value = DivCase> {
    (
        (0u8..10, any::<u16>(), any::<u64>()),
        0u8..12,
        edgy128(),
        edgy::<16>(1024),
        (0usize..12, -2i32..=2, -2i32..=2, 1u32..=16),
        prop_oneof![1 => Just(1usize), 1 => Just(2usize), 2 => Just(4usize), 2 => Just(8usize), 4 => Just(16usize)],
        (any::<u64>(), any::<u32>(), 0u64..40),
    )
        .prop_map(|((sel, i, r), kind, e, ew, (bi, j, delta, k), words, (r2, steer, small))| {
            let p = pick_prime(sel, i, r);
            let b = BOUNDS[bi];
            let (shape, n, w): (&str, u128, U1024) = match kind {
                0 | 1 => ("near-multiple", near_multiple(p, b, j, delta), near_multiple_big(p, k, j, delta)),
                2 => {
                    // high word random, low word a multiple next to 2^63 / 2^64
                    let lo = near_multiple(p, 63 + (r2 & 1) as u32, j, delta) as u64;
                    ("near-multiple-low-word", ((r2 as u128) << 64) | lo as u128, near_multiple_big(p, k, j, delta) ^ (U1024::from(r2) << 512))
                }
                3 | 4 => ("edgy", e, ew),
                5 | 6 => (
                    "carry-steered",
                    carry_u128(p, r2 | (1 << 63 >> (steer % 40)), small),
                    carry_uint(p, words, r2, steer, small),
                ),
                7 => {
                    // negative side of modi64: -(multiple of p +- delta) near 2^63, 2^31, 0
                    let m = near_multiple(p, [63u32, 62, 31, 32, 8, 16][bi % 6], j, delta) as u64;
                    ("negative", (m as i64).wrapping_neg() as u64 as u128 | ((r2 as u128) << 64), ew)
                }
                8 => ("uniform", ((r2 as u128) << 64) | r as u128, carry_uint(p, words, r2, 0, 0)),
                9 => ("small", (r2 % (4 * p as u64 + 4)) as u128, U1024::from(r2 % (4 * p as u64 + 4))),
                _ => {
                    // all-ones / zero words
                    let mut d = [0u64; 16];
                    for (t, x) in d.iter_mut().enumerate() {
                        *x = match (steer >> (2 * (t % 16))) & 3 {
                            0 => 0,
                            1 => u64::MAX,
                            2 => u64::MAX - small,
                            _ => small,
                        };
                    }
                    ("ones-zero-words", ((d[1] as u128) << 64) | d[0] as u128, U1024::from_digits(d))
                }
            };
            DivCase { p, n, w, words, shape: shape.to_string() }
        })
}

/// Exhaustive modu16 for every prime below 2^16, and the complete boundary operand set for every
/// prime of `primes`.
fn div_fixed(ctx: &Ctx, primes: &[u32]) {
    let found: Mutex<BTreeMap<String, (DivCase, Fail)>> = Mutex::new(BTreeMap::new());
    let record = |c: DivCase, f: Fail| {
        let mut g = found.lock().unwrap();
        let key = (c.p, c.n);
        match g.get(&f.class) {
            Some((o, _)) if (o.p, o.n) <= key => {}
            _ => {
                g.insert(f.class.clone(), (c, f));
            }
        }
    };
    primes.par_chunks(64).for_each(|chunk| {
        let mut l = Local::new();
        for &p in chunk {
            // operands
            let mut ns: Vec<u128> = vec![0, 1, u128::MAX, u64::MAX as u128, i64::MAX as u128, 1u128 << 63];
            for &b in &BOUNDS {
                for j in -1..=1 {
                    for delta in -1..=1 {
                        let n = near_multiple(p, b, j, delta);
                        ns.push(n);
                        // the same low word under a random-looking and an all-ones high word
                        ns.push((n as u64 as u128) | ((0x9e3779b97f4a7c15u128 ^ p as u128) << 64));
                        ns.push((n as u64 as u128) | ((u64::MAX as u128) << 64));
                        // negative counterpart for modi64
                        ns.push((n as u64 as i64).wrapping_neg() as u64 as u128);
                    }
                }
            }
            for s in 0..3u64 {
                ns.push(carry_u128(p, u64::MAX - s * 0x1234_5678_9abc, s));
                ns.push(carry_u128(p, (1 << 63) + s, 0));
            }
            let mut ws: Vec<U1024> = vec![U1024::ZERO, U1024::MAX];
            for k in 1..=16 {
                for j in -1..=1 {
                    for delta in -1..=1 {
                        ws.push(near_multiple_big(p, k, j, delta));
                    }
                }
            }
            for s in 0..4u32 {
                ws.push(carry_uint(p, 16, p as u64 + s as u64, u32::MAX >> s, s as u64));
            }
            let exhaustive16 = p < 1 << 16;
            let d = match guard("Dividers::new", || Dividers::new(p)) {
                Ok(d) => d,
                Err(f) => {
                    record(DivCase { p, n: 0, w: U1024::ZERO, words: 1, shape: "fixed".into() }, f);
                    continue;
                }
            };
            let fast = catch(|| {
                let mut bad: Vec<(u128, U1024, usize)> = vec![];
                if exhaustive16 {
                    for n16 in 0..=u16::MAX {
                        if d.modu16(n16) != (n16 as u32 % p) as u16 {
                            bad.push((n16 as u128, U1024::ZERO, 1));
                            break;
                        }
                    }
                }
                for &n in &ns {
                    if div_scalar_raw(&d, p, n).is_err() {
                        bad.push((n, U1024::ZERO, 1));
                    }
                }
                for w in &ws {
                    for words in [4usize, 16] {
                        if div_multi_dispatch(&d, p, w, words).is_err() {
                            bad.push((0, *w, words));
                        }
                    }
                }
                bad
            });
            let mut suspects: Vec<(u128, U1024, usize)> = match fast {
                Ok(b) => b,
                Err(_) => {
                    // something panicked: re-examine the operands one by one
                    let mut v: Vec<(u128, U1024, usize)> = vec![];
                    if exhaustive16 {
                        if let Some(n16) = (0..=u16::MAX).find(|&n16| {
                            !matches!(catch(|| d.modu16(n16)), Ok(r) if r == (n16 as u32 % p) as u16)
                        }) {
                            v.push((n16 as u128, U1024::ZERO, 1));
                        }
                    }
                    v.extend(ns.iter().map(|&n| (n, U1024::ZERO, 1)));
                    for w in &ws {
                        v.push((0, *w, 4));
                        v.push((0, *w, 16));
                    }
                    v
                }
            };
            // keep the work bounded when a routine is broken for most operands
            let mut failures = 0;
            suspects.truncate(2000);
            for (n, w, words) in suspects {
                let c = DivCase { p, n, w, words, shape: "fixed".into() };
                let mut tmp = Local::new();
                if let Err(f) = check_div(&c, &mut tmp) {
                    record(c, f);
                    failures += 1;
                }
                l.merge(tmp);
                if failures >= 12 {
                    break;
                }
            }
            let cnt = ns.len() as u64 + 2 * ws.len() as u64 + if exhaustive16 { 65536 } else { 0 };
            l.cases(cnt);
            l.label_n("div:fixed:boundary-operands", ns.len() as u64 + 2 * ws.len() as u64);
            if exhaustive16 {
                l.label_n("div:fixed:modu16-exhaustive", 65536);
            }
            // distinct by construction: (p, operand) pairs of the boundary set (all within 2p of a power
            // of two or multiword); the exhaustive 16-bit operands are not counted as non-trivial
            l.nontrivial_bulk(ws.len() as u64);
            l.label("div:fixed:primes");
        }
        ctx.merge(l);
    });
    for (_, (c, f)) in found.into_inner().unwrap() {
        if f.class.starts_with("HARNESS|") {
            ctx.selfcheck_failed(&format!("div: {}", f.what));
        } else {
            ctx.violation("div", &f, serde_json::to_value(&c).unwrap());
        }
    }
}

// ---------------------------------------------------------------------------
// "inverter"

#[derive(Clone, Debug, Serialize, Deserialize)]
pub struct InvCase {
    pub p: u32,
    pub x: u32,
}

fn inverter_raw(inv: &Inverter, d: &Dividers, p: u32, x: u32) -> Result<(), Fail> {
    let y = inv.invert(x, d);
    if y >= p || (x as u64 * y as u64) % p as u64 != 1 % p as u64 {
        return Err(wrong(
            "Inverter::invert",
            format!("p={} invert({}) = {}: x*inv mod p = {}", p, x, y, (x as u64 * y as u64) % p as u64),
        ));
    }
    Ok(())
}

pub fn check_inverter(c: &InvCase, l: &mut Local) -> Result<(), Fail> {
    l.case();
    if c.p >> 28 != 0 || !ref_isprime64(c.p as u64) || c.x == 0 || c.x >= c.p {
        return Err(Fail::new("HARNESS|out-of-domain", format!("inverter case {:?}", c)));
    }
    l.label(if c.p >> 24 == 0 { "inverter:p<2^24" } else { "inverter:p<2^28" });
    if c.p > 1 << 27 {
        l.label("inverter:p>2^27");
    }
    l.nontrivial_of(&("inverter", c.p, c.x));
    let r = (|| {
        let d = guard("Dividers::new", || Dividers::new(c.p))?;
        let inv = guard("Inverter::new", || Inverter::new(c.p))?;
        guard("Inverter::invert", || inverter_raw(&inv, &d, c.p, c.x))?
    })();
    chk_filter(PROP, "inverter", c, l, r)
}

pub fn inverter_strategy() -> impl Strategy<Value = InvCase> {
    ((0u8..10, any::<u16>(), any::<u64>()), 0u8..8, any::<u32>(), 0u32..28).prop_map(|((sel, i, r), kind, x, sh)| {
        let p = if sel % 10 >= 8 {
            // 25..28 bits, half of them in the top octave
            let mut rng = SplitMix(r);
            prime64(if i & 1 == 0 { 28 } else { 25 + (i as u32 >> 1) % 4 }, &mut rng) as u32
        } else {
            let mut p = pick_prime(sel, i, r);
            while p >> 28 != 0 {
                p = pick_prime(3, (p >> 8) as u16, r);
            }
            p
        };
        let x = match kind {
            0 => 1,
            1 => p - 1,
            2 => (1u32 << (sh % 28)) % p,
            3 => p - 1 - ((1u32 << (sh % 28)) % p).min(p - 2),
            4 => (p + 1) / 2,
            5 => x % 64,
            _ => x % p,
        };
        InvCase { p, x: x.max(1).min(p - 1) }
    })
}

/// every x in [1, p) for the given primes
fn inverter_fixed(ctx: &Ctx, primes: &[u32]) {
    let found: Mutex<Option<(InvCase, Fail)>> = Mutex::new(None);
    primes.par_chunks(16).for_each(|chunk| {
        let mut l = Local::new();
        for &p in chunk {
            let r = catch(|| {
                let d = Dividers::new(p);
                let inv = Inverter::new(p);
                (1..p).find(|&x| inverter_raw(&inv, &d, p, x).is_err())
            });
            let suspects: Vec<u32> = match r {
                Ok(None) => vec![],
                Ok(Some(x)) => vec![x],
                Err(_) => (1..p).collect(),
            };
            for x in suspects {
                let c = InvCase { p, x };
                let mut tmp = Local::new();
                if let Err(f) = check_inverter(&c, &mut tmp) {
                    let mut g = found.lock().unwrap();
                    if g.as_ref().map_or(true, |(o, _)| (c.p, c.x) < (o.p, o.x)) {
                        *g = Some((c, f));
                    }
                    break;
                }
            }
            l.cases(p as u64 - 1);
            l.label_n("inverter:exhaustive-x", p as u64 - 1);
            l.nontrivial_bulk(p as u64 - 1);
        }
        ctx.merge(l);
    });
    if let Some((c, f)) = found.into_inner().unwrap() {
        ctx.violation("inverter", &f, serde_json::to_value(&c).unwrap());
    }
}

// ---------------------------------------------------------------------------
// "inv_mod64"

#[derive(Clone, Debug, Serialize, Deserialize)]
pub struct Inv64Case {
    #[serde(with = "crate::ser::u64s")]
    pub n: u64,
    #[serde(with = "crate::ser::u64s")]
    pub p: u64,
}

pub fn check_inv64(c: &Inv64Case, l: &mut Local) -> Result<(), Fail> {
    l.case();
    if c.p < 2 || c.p >> 63 != 0 || c.n >> 63 != 0 {
        return Err(Fail::new("HARNESS|out-of-domain", format!("inv_mod64 case {:?}", c)));
    }
    let g = gcd64(c.n, c.p);
    l.label(if g == 1 { "inv_mod64:coprime" } else { "inv_mod64:common-factor" });
    if c.p >> 62 != 0 {
        l.label("inv_mod64:p>=2^62");
    }
    l.nontrivial_of(&("inv64", c.n, c.p));
    let r = (|| {
        let got = guard("inv_mod64", || arith::inv_mod64(c.n, c.p))?;
        match got {
            Some(x) => {
                ensure!(
                    g == 1 && x < c.p && (c.n as u128 * x as u128) % c.p as u128 == 1,
                    "inv_mod64|not-inverse",
                    "inv_mod64({}, {}) = Some({}), gcd = {}, n*x mod p = {}",
                    c.n,
                    c.p,
                    x,
                    g,
                    (c.n as u128 * x as u128) % c.p as u128
                );
            }
            None => ensure!(g != 1, "inv_mod64|none-for-unit", "inv_mod64({}, {}) = None but gcd = 1", c.n, c.p),
        }
        Ok(())
    })();
    chk_filter(PROP, "inv_mod64", c, l, r)
}

pub fn inv64_strategy() -> impl Strategy<Value = Inv64Case> {
    (0u8..8, edgy64(), edgy64(), any::<u64>(), 2u32..=63).prop_map(|(kind, a, b, r, bits)| {
        let m63 = u64::MAX >> 1;
        let mut rng = SplitMix(r);
        let (n, p) = match kind {
            0 | 1 => (a & m63, b & m63),
            2 => (r & m63, prime64(bits, &mut rng)),
            3 => {
                // n reduced modulo a prime, like the callers
                let p = prime64(bits, &mut rng);
                (r % p, p)
            }
            4 => {
                // common factor
                let g = prime64(2 + bits % 20, &mut rng);
                (((a & m63) / g).max(1) * g, ((b & m63) / g).max(1) * g)
            }
            5 => (a & m63, m63 - (r % 64)),
            6 => (m63 - (r % 64), b & m63),
            _ => (r % 4, b & m63),
        };
        Inv64Case { n, p: p.max(2) }
    })
}

// ---------------------------------------------------------------------------
// "sqrt_mod"

#[derive(Clone, Debug, Serialize, Deserialize)]
pub struct SqrtCase {
    /// 1 = u64 (p < 2^24), 4 / 8 / 16 = U256 / U512 / U1024 (p = 3 mod 4, p^2 below the width)
    pub words: usize,
    #[serde(with = "crate::ser::dec")]
    pub p: U1024,
    #[serde(with = "crate::ser::dec")]
    pub a: U1024,
}

fn sqrt_multi<const N: usize>(c: &SqrtCase, l: &mut Local) -> Result<(), Fail> {
    let p: BUint<N> = resize(&c.p);
    let a: BUint<N> = resize(&c.a);
    let am = a % p;
    let j = if am.is_zero() { 0 } else { jacobi(&am, &p) };
    l.label(match j {
        1 => "sqrt_mod:residue",
        0 => "sqrt_mod:zero",
        _ => "sqrt_mod:non-residue",
    });
    let got = guard(&format!("sqrt_mod<U{}>", 64 * N), || arith::sqrt_mod(a, p))?;
    sqrt_verdict(&format!("sqrt_mod<U{}>", 64 * N), got.map(|r| widen(&r)), widen(&am), widen(&p), j)
}

fn sqrt_verdict(entry: &str, got: Option<Ref>, am: Ref, p: Ref, j: i32) -> Result<(), Fail> {
    match got {
        Some(r) => {
            ensure!(
                r < p && (r * r) % p == am,
                format!("{}|not-a-root", entry),
                "sqrt_mod({}, {}) = Some({}) but r^2 mod p = {} (Jacobi symbol {})",
                am,
                p,
                r,
                (r * r) % p,
                j
            );
            ensure!(
                !am.is_zero() || r.is_zero(),
                format!("{}|zero-root", entry),
                "sqrt_mod(0 mod {}) = Some({})",
                p,
                r
            );
        }
        None => ensure!(
            j == -1,
            format!("{}|none-for-residue", entry),
            "sqrt_mod({}, {}) = None but the Jacobi symbol is {}",
            am,
            p,
            j
        ),
    }
    Ok(())
}

static SQRT_SLOW_CALLS: AtomicU32 = AtomicU32::new(0);

pub fn check_sqrt(c: &SqrtCase, l: &mut Local) -> Result<(), Fail> {
    l.case();
    let ood = |t: &str| Err(Fail::new("HARNESS|out-of-domain", format!("sqrt_mod: {}: {:?}", t, c)));
    let r = match c.words {
        1 => {
            if c.p.bits() > 24 || c.a.bits() > 64 || !ref_isprime64(c.p.digits()[0]) {
                return ood("u64 instance needs a prime p < 2^24 and a < 2^64");
            }
            let (p, a) = (c.p.digits()[0], c.a.digits()[0]);
            let am = a % p;
            let j = if am == 0 || p == 2 { (am != 0) as i32 } else { jacobi64(am, p) };
            l.label(match j {
                1 => "sqrt_mod:residue",
                0 => "sqrt_mod:zero",
                _ => "sqrt_mod:non-residue",
            });
            let e2 = (p - 1).trailing_zeros();
            l.label(match (p % 4, e2) {
                (3, _) => "sqrt_mod:u64:p=3mod4",
                (_, 0..=7) => "sqrt_mod:u64:p=1mod4,2-adic<8",
                (_, 8..=15) => "sqrt_mod:u64:p=1mod4,2-adic<16",
                _ => "sqrt_mod:u64:p=1mod4,2-adic>=16",
            });
            l.nontrivial_of(&("sqrt", p, a));
            // The search loop of the p = 1 mod 4 branch needs about 2^(e2-1) rounds (e2 = 2-adic valuation of
            // p-1) and gives up after 2^24.  For e2 <= 13 a call costs < 1 ms; after 8 calls that took more than
            // 1 s (1000x) the remaining p = 1 mod 4 cases are skipped and the run ends inconclusive (exit 2)
            // unless a violation was recorded.  No verdict of a case depends on the clock.
            if p % 4 == 1 && SQRT_SLOW_CALLS.load(Ordering::Relaxed) >= 8 {
                l.label("sqrt_mod:skipped-after-slow-calls");
                return Ok(());
            }
            let t0 = std::time::Instant::now();
            let r = guard("sqrt_mod<u64>", || arith::sqrt_mod(a, p)).and_then(|got| {
                sqrt_verdict("sqrt_mod<u64>", got.map(Ref::from), Ref::from(am), Ref::from(p), j)
            });
            if p % 4 == 1 && e2 <= 13 && t0.elapsed().as_secs_f64() > 1.0 {
                SQRT_SLOW_CALLS.fetch_add(1, Ordering::Relaxed);
            }
            r
        }
        4 | 8 | 16 => {
            let ok = c.p.bit(0)
                && c.p.digits()[0] % 4 == 3
                && 2 * c.p.bits() <= 64 * c.words as u32
                && c.a.bits() <= 64 * c.words as u32
                && if c.p.bits() <= 64 {
                    ref_isprime64(c.p.digits()[0])
                } else {
                    c.p.bits() <= 512 && crate::oracle::prim::ref_sprp(&c.p, 2) && crate::oracle::prim::ref_sprp(&c.p, 3)
                };
            if !ok {
                return ood("multiword instance needs a prime p = 3 mod 4 with p^2 below the width");
            }
            l.label(&format!("sqrt_mod:U{}", 64 * c.words));
            l.nontrivial_of(&("sqrt", c.words, c.p.digits(), c.a.digits()));
            match c.words {
                4 => sqrt_multi::<4>(c, l),
                8 => sqrt_multi::<8>(c, l),
                _ => sqrt_multi::<16>(c, l),
            }
        }
        _ => return ood("words must be 1, 4, 8 or 16"),
    };
    chk_filter(PROP, "sqrt_mod", c, l, r)
}

/// Primes p < 2^24 with p - 1 divisible by 2^12 (and the 2-adic valuation), ascending.
fn two_adic_primes() -> &'static Vec<(u32, u32)> {
    static S: OnceLock<Vec<(u32, u32)>> = OnceLock::new();
    S.get_or_init(|| {
        primes24()
            .iter()
            .filter(|&&p| p > 2 && (p - 1).trailing_zeros() >= 12)
            .map(|&p| (p, (p - 1).trailing_zeros()))
            .collect()
    })
}

/// Certified primes = 3 mod 4 above 64 bits (Pocklington pool), per bit length.
fn primes_3mod4() -> &'static Vec<U1024> {
    static S: OnceLock<Vec<U1024>> = OnceLock::new();
    S.get_or_init(|| {
        let mut jobs = vec![];
        for &b in [65u32, 66, 96, 100, 120, 127, 128, 129, 160, 192, 200, 250, 255, 256, 257, 300, 384, 448, 500, 511, 512].iter() {
            for i in 0..6u32 {
                jobs.push((b, i));
            }
        }
        let mut v: Vec<U1024> = jobs
            .par_iter()
            .map(|&(b, i)| certified_prime(b, i))
            .filter(|p| p.digits()[0] % 4 == 3)
            .collect();
        for p in crate::oracle::int::famous_primes() {
            if p.bits() > 64 && p.bits() <= 512 && p.digits()[0] % 4 == 3 {
                v.push(p);
            }
        }
        v.sort();
        v.dedup();
        v
    })
}

pub fn sqrt_strategy() -> impl Strategy<Value = SqrtCase> {
    (0u8..16, any::<u16>(), any::<u64>(), edgy::<16>(1024), 0u8..6, 3u32..=64).prop_map(|(kind, i, r, e, akind, bits)| {
        let mut rng = SplitMix(r);
        let pr = primes24();
        // (words, p)
        let (words, p): (usize, U1024) = match kind {
            0..=3 => (1, U1024::from(pr[pick_idx(i, pr.len())] as u64)),
            4 | 5 => (1, U1024::from(pr[pick_idx(i, 6542)] as u64)),
            6 => (1, U1024::from(pr[pick_idx(i, 60)] as u64)),
            7 | 8 => {
                // large 2-adic valuation, capped so that one call stays below ~2^13 trials
                let t = two_adic_primes();
                let cand: Vec<&(u32, u32)> = t.iter().filter(|x| x.1 <= 13).collect();
                (1, U1024::from(cand[pick_idx(i, cand.len())].0 as u64))
            }
            9 | 10 => {
                // 64-bit-certified primes = 3 mod 4 in a multiword type
                let b = bits.max(3);
                let mut p = prime64(b, &mut rng);
                while p % 4 != 3 {
                    p = prime64(b, &mut rng);
                }
                ([4usize, 8, 16][(r % 3) as usize], U1024::from(p))
            }
            _ => {
                let t = primes_3mod4();
                let p = t[pick_idx(i, t.len())];
                let minw = if p.bits() <= 128 { 4 } else if p.bits() <= 256 { 8 } else { 16 };
                let w = [4usize, 8, 16].into_iter().filter(|&w| w >= minw).nth((r % 3) as usize).unwrap_or(16);
                (w, p)
            }
        };
        let width = if words == 1 { 64 } else { 64 * words as u32 };
        let mask = if width >= 1024 { U1024::MAX } else { (U1024::ONE << width) - U1024::ONE };
        let x = rng.bits::<16>(p.bits() + 7) % p;
        let a = match akind {
            0 => (x * x) % p,                                             // residue, reduced
            1 => ((x * x) % p) + p * U1024::from(r % 1000),               // residue, unreduced
            2 => x,                                                        // random class
            3 => e,                                                        // edge-biased, unreduced
            4 => p * U1024::from(r % 3),                                   // zero class
            _ => p - U1024::ONE - (x >> 1u32) * U1024::from(r % 2),
        };
        let a = if (a & mask) == a { a } else { a % p };
        SqrtCase { words, p, a }
    })
}

fn sqrt_fixed(ctx: &Ctx) {
    // every residue class for every prime below 2^12 (u64 instance)
    let pr: Vec<u32> = primes24().iter().copied().take_while(|&p| p < 1 << 12).collect();
    let found: Mutex<Option<(SqrtCase, Fail)>> = Mutex::new(None);
    pr.par_chunks(8).for_each(|chunk| {
        let mut l = Local::new();
        for &p in chunk {
            for a in 0..p as u64 {
                let c = SqrtCase { words: 1, p: U1024::from(p as u64), a: U1024::from(a) };
                let mut tmp = Local::new();
                let r = check_sqrt(&c, &mut tmp);
                l.evals += 1;
                if let Err(f) = r {
                    let mut g = found.lock().unwrap();
                    if g.as_ref().map_or(true, |(o, _)| (c.p, c.a) < (o.p, o.a)) {
                        *g = Some((c, f));
                    }
                    break;
                }
            }
            l.label_n("sqrt_mod:exhaustive-residues", p as u64);
            l.nontrivial_bulk(p as u64);
        }
        ctx.merge(l);
    });
    if let Some((c, f)) = found.into_inner().unwrap() {
        ctx.violation("sqrt_mod", &f, serde_json::to_value(&c).unwrap());
    }
    // a few residues for the primes with the deepest 2-adic valuation (cost 2^(e-1) trials per call)
    let t = two_adic_primes();
    let mut cases = vec![];
    let top = if ctx.is_chk() { 20 } else { 23 };
    for e2 in 14..=top {
        let Some(&(p, _)) = t.iter().find(|x| x.1 == e2) else { continue };
        let p64 = p as u64;
        for x in [2u64, 3, p64 - 2] {
            cases.push(SqrtCase { words: 1, p: U1024::from(p64), a: U1024::from(x * x % p64) });
        }
        // and a non-residue (decided by the Euler criterion before the search)
        if let Some(nr) = (2..100u64).find(|&a| jacobi64(a, p64) == -1) {
            cases.push(SqrtCase { words: 1, p: U1024::from(p64), a: U1024::from(nr) });
        }
    }
    let locals: Vec<Local> = cases
        .par_iter()
        .map(|c| {
            let mut l = Local::new();
            l.label("sqrt_mod:deep-2-adic-fixed");
            ctx.fixed_case("sqrt_mod", c, &mut l, check_sqrt);
            l
        })
        .collect();
    for l in locals {
        ctx.merge(l);
    }
}

// ---------------------------------------------------------------------------
// "pow_mod"

#[derive(Clone, Debug, Serialize, Deserialize)]
pub struct PowCase {
    /// 1 = u64 (p < 2^32), 4 / 8 / 16 = U256 / U512 / U1024 (p at most half the width)
    pub words: usize,
    #[serde(with = "crate::ser::dec")]
    pub n: U1024,
    #[serde(with = "crate::ser::dec")]
    pub k: U1024,
    #[serde(with = "crate::ser::dec")]
    pub p: U1024,
}

fn pow_multi<const N: usize>(c: &PowCase) -> Result<(), Fail> {
    let (n, k, p): (BUint<N>, BUint<N>, BUint<N>) = (resize(&c.n), resize(&c.k), resize(&c.p));
    let want = powmod_ltr(&n, &k, &p);
    let entry = format!("pow_mod<U{}>", 64 * N);
    let got = guard(&entry, || arith::pow_mod(n, k, p))?;
    ensure!(got == want, format!("{}|wrong-result", entry), "pow_mod({}, {}, {}) = {} != {}", n, k, p, got, want);
    Ok(())
}

pub fn check_pow(c: &PowCase, l: &mut Local) -> Result<(), Fail> {
    l.case();
    let width = if c.words == 1 { 64 } else { 64 * c.words as u32 };
    if ![1, 4, 8, 16].contains(&c.words)
        || c.p < U1024::from(2u64)
        || 2 * c.p.bits() > width
        || c.n.bits() > width
        || c.k.bits() > width
    {
        return Err(Fail::new("HARNESS|out-of-domain", format!("pow_mod case {:?}", c)));
    }
    l.label(&format!("pow_mod:words:{}", c.words));
    if 2 * c.p.bits() + 1 >= width {
        l.label("pow_mod:p-at-half-width");
    }
    if c.n >= c.p {
        l.label("pow_mod:unreduced-base");
    }
    l.nontrivial_of(&("pow", c.words, c.n.digits(), c.k.digits(), c.p.digits()));
    let r = match c.words {
        1 => (|| {
            let (n, k, p) = (c.n.digits()[0], c.k.digits()[0], c.p.digits()[0]);
            let want = powmod_ltr64(n, k, p);
            let got = guard("pow_mod<u64>", || arith::pow_mod(n, k, p))?;
            ensure!(got == want, "pow_mod<u64>|wrong-result", "pow_mod({}, {}, {}) = {} != {}", n, k, p, got, want);
            Ok(())
        })(),
        4 => pow_multi::<4>(c),
        8 => pow_multi::<8>(c),
        _ => pow_multi::<16>(c),
    };
    chk_filter(PROP, "pow_mod", c, l, r)
}

pub fn pow_strategy() -> impl Strategy<Value = PowCase> {
    (
        prop_oneof![3 => Just(1usize), 2 => Just(4usize), 1 => Just(8usize), 2 => Just(16usize)],
        edgy::<16>(1024),
        edgy::<16>(1024),
        edgy::<16>(512),
        0u8..8,
        any::<u64>(),
    )
        .prop_map(|(words, n, k, p, kind, r)| {
            let width = if words == 1 { 64 } else { 64 * words as u32 };
            let fit = |x: U1024, bits: u32| if x.bits() > bits { x >> (x.bits() - bits) } else { x };
            let mut p = fit(p, width / 2);
            if kind == 0 {
                // all-ones modulus of exactly half the width: (p-1)^2 is as large as it gets
                p = (U1024::ONE << (width / 2)) - U1024::from(1 + r % 3);
            }
            if p < U1024::from(2u64) {
                p = U1024::from(2 + r % 5);
            }
            let n = match kind {
                1 => p - U1024::ONE,
                2 => fit(n, width) % p,
                _ => fit(n, width),
            };
            let k = match kind {
                3 => U1024::from(r % 4),
                4 => p - U1024::ONE,
                5 => fit(k, 64),
                // keep the cost of wide exponents in check
                _ => fit(k, if words == 16 { 260 + (r % 764) as u32 } else { width }),
            };
            PowCase { words, n, k, p }
        })
}

// ---------------------------------------------------------------------------
// "isqrt"

#[derive(Clone, Debug, Serialize, Deserialize)]
pub struct IsqrtCase {
    /// 0 = squfof::isqrt (u64, through the hook), 1 = u64, 4 / 8 / 16 = U256 / U512 / U1024
    pub words: usize,
    #[serde(with = "crate::ser::dec")]
    pub n: U1024,
}

fn isqrt_verdict(entry: &str, n: &U1024, r: &U1024) -> Result<(), Fail> {
    let (n, r): (Ref, Ref) = (widen(n), widen(r));
    ensure!(
        r * r <= n && n < (r + Ref::ONE) * (r + Ref::ONE),
        format!("{}|wrong-root", entry),
        "{}({}) = {} (floor sqrt is {})",
        entry,
        n,
        r,
        ref_isqrt(&n)
    );
    Ok(())
}

pub fn check_isqrt(c: &IsqrtCase, l: &mut Local) -> Result<(), Fail> {
    l.case();
    let width = match c.words {
        0 | 1 => 64,
        4 | 8 | 16 => 64 * c.words as u32,
        _ => return Err(Fail::new("HARNESS|bad-words", "words must be 0, 1, 4, 8 or 16")),
    };
    if c.n.bits() > width {
        return Err(Fail::new("HARNESS|out-of-domain", "isqrt operand wider than the type"));
    }
    l.label(&format!("isqrt:words:{}", c.words));
    if c.n.bits() > 52 && c.words <= 1 {
        l.label("isqrt:u64:above-2^52(f64 seed rounds)");
    }
    l.nontrivial_of(&("isqrt", c.words, c.n.digits()));
    let n64 = c.n.digits()[0];
    let r = match c.words {
        0 => guard("squfof::isqrt", || yamaquasi::squfof::verif_isqrt(n64))
            .and_then(|r| isqrt_verdict("squfof::isqrt", &c.n, &U1024::from(r))),
        1 => guard("arith::isqrt<u64>", || arith::isqrt(n64))
            .and_then(|r| isqrt_verdict("arith::isqrt<u64>", &c.n, &U1024::from(r))),
        4 => guard("arith::isqrt<U256>", || arith::isqrt(resize::<16, 4>(&c.n)))
            .and_then(|r| isqrt_verdict("arith::isqrt<U256>", &c.n, &resize(&r))),
        8 => guard("arith::isqrt<U512>", || arith::isqrt(resize::<16, 8>(&c.n)))
            .and_then(|r| isqrt_verdict("arith::isqrt<U512>", &c.n, &resize(&r))),
        _ => guard("arith::isqrt<U1024>", || arith::isqrt(c.n))
            .and_then(|r| isqrt_verdict("arith::isqrt<U1024>", &c.n, &r)),
    };
    chk_filter(PROP, "isqrt", c, l, r)
}

pub fn isqrt_strategy() -> impl Strategy<Value = IsqrtCase> {
    (
        prop_oneof![4 => Just(0usize), 3 => Just(1usize), 1 => Just(4usize), 1 => Just(8usize), 2 => Just(16usize)],
        edgy::<16>(1024),
        0u8..8,
        -2i32..=2,
        any::<u64>(),
    )
        .prop_map(|(words, e, kind, d, r)| {
            let width = if words <= 1 { 64 } else { 64 * words as u32 };
            let fit = |x: U1024, bits: u32| if x.bits() > bits { x >> (x.bits() - bits) } else { x };
            let x = fit(e, width);
            let add = |x: U1024, d: i32| -> U1024 {
                if d >= 0 {
                    x.saturating_add(U1024::from(d as u64))
                } else {
                    x.saturating_sub(U1024::from((-d) as u64))
                }
            };
            let n = match kind {
                // s^2 + d
                0 | 1 | 2 => {
                    let s = fit(e, width / 2);
                    add(s * s, d)
                }
                // s*(s+1) + d, s*(s+2) + d: the branch points of the Newton stopping rules
                3 => {
                    let s = fit(e, width / 2 - 1);
                    add(s * (s + U1024::from(1 + (r & 1))), d)
                }
                // 2^k + d
                4 => add(U1024::ONE << (r % width as u64) as u32, d),
                // top of the type
                5 => {
                    let m = if width >= 1024 { U1024::MAX } else { (U1024::ONE << width) - U1024::ONE };
                    m - U1024::from(r % 5000)
                }
                // squares of values just below 2^(w/2): f64 rounds the seed up
                6 => {
                    let s = (U1024::ONE << (width / 2)) - U1024::ONE - U1024::from(r % 3000);
                    add(s * s, d)
                }
                _ => x,
            };
            IsqrtCase { words, n: fit(n, width) }
        })
}

// ---------------------------------------------------------------------------
// "perfect_power"

#[derive(Clone, Debug, Serialize, Deserialize)]
pub struct PpCase {
    /// 1 = u64, 16 = U1024 (the two instantiations the library uses)
    pub words: usize,
    #[serde(with = "crate::ser::dec")]
    pub n: U1024,
    #[serde(default)]
    pub shape: String,
}

fn pp_verdict<const N: usize>(entry: &str, n: &BUint<N>, got: Option<(BUint<N>, u32)>, l: &mut Local) -> Result<(), Fail> {
    match got {
        Some((r, k)) => {
            l.label("perfect_power:some");
            if k > 20 {
                l.label("perfect_power:exponent>20");
            }
            ensure!(
                k >= 2 && r >= BUint::<N>::from(2u64) && checked_pow(&r, k) == Some(*n),
                format!("{}|not-a-power", entry),
                "perfect_power({}) = Some(({}, {})) but r^k != n",
                n,
                r,
                k
            );
            for q in ROOT_PRIMES {
                ensure!(
                    is_perfect_power_of(&r, q).is_none(),
                    format!("{}|root-not-minimal", entry),
                    "perfect_power({}) = Some(({}, {})) but {} is itself a perfect {}-th power",
                    n,
                    r,
                    k,
                    r,
                    q
                );
            }
        }
        None => {
            l.label("perfect_power:none");
            for q in ROOT_PRIMES {
                if let Some(s) = is_perfect_power_of(n, q) {
                    return Err(Fail::new(
                        format!("{}|missed-power", entry),
                        format!("perfect_power({}) = None but n = {}^{}", n, s, q),
                    ));
                }
            }
        }
    }
    Ok(())
}

fn pp_multi<const N: usize>(c: &PpCase, l: &mut Local) -> Result<(), Fail> {
    // reference roots in the narrowest type that holds n; the library call in U1024
    let n: BUint<N> = resize(&c.n);
    let got = guard("perfect_power<U1024>", || arith::perfect_power(c.n))?;
    if let Some((r, _)) = &got {
        if r.bits() as usize > 64 * N {
            return Err(Fail::new(
                "perfect_power<U1024>|not-a-power",
                format!("perfect_power({}) returned the root {} > n", c.n, r),
            ));
        }
    }
    pp_verdict("perfect_power<U1024>", &n, got.map(|(r, k)| (resize::<16, N>(&r), k)), l)
}

pub fn check_pp(c: &PpCase, l: &mut Local) -> Result<(), Fail> {
    l.case();
    if c.n < U1024::from(2u64) || (c.words == 1 && c.n.bits() > 64) || ![1, 16].contains(&c.words) {
        return Err(Fail::new("HARNESS|out-of-domain", format!("perfect_power case {:?}", c)));
    }
    l.label(&format!("perfect_power:words:{}", c.words));
    l.label(&format!("perfect_power:shape:{}", if c.shape.is_empty() { "replay" } else { &c.shape }));
    l.nontrivial_of(&("pp", c.words, c.n.digits()));
    let r = if c.words == 1 {
        let n = c.n.digits()[0];
        guard("perfect_power<u64>", || arith::perfect_power(n))
            .and_then(|got| pp_verdict("perfect_power<u64>", &BUint::<1>::from(n), got.map(|(r, k)| (BUint::<1>::from(r), k)), l))
    } else if c.n.bits() <= 128 {
        pp_multi::<2>(c, l)
    } else if c.n.bits() <= 256 {
        pp_multi::<4>(c, l)
    } else if c.n.bits() <= 512 {
        pp_multi::<8>(c, l)
    } else {
        pp_multi::<16>(c, l)
    };
    chk_filter(PROP, "perfect_power", c, l, r)
}

pub fn pp_strategy() -> impl Strategy<Value = PpCase> {
    (
        prop_oneof![3 => Just(1usize), 2 => Just(16usize)],
        edgy::<16>(1024),
        0u8..10,
        0u16..u16::MAX,
        -1i32..=1,
        any::<u64>(),
    )
        .prop_map(|(words, e, kind, ki, d, r)| {
            let width: u32 = if words == 1 { 64 } else { 1024 };
            // most multiword values stay within the 512 bits that factor() accepts
            let maxbits = if words == 16 && r % 4 != 0 { 512 } else { width };
            let fit = |x: U1024, bits: u32| if x.bits() > bits { x >> (x.bits() - bits) } else { x };
            let exps: [u32; 30] = [
                2, 3, 4, 5, 6, 7, 8, 9, 10, 11, 12, 13, 14, 15, 16, 17, 18, 19, 20, 21, 22, 23, 25, 27, 29, 31, 32, 37, 49, 64,
            ];
            let k = exps[pick_idx(ki, exps.len())].min(maxbits / 2);
            let (shape, n): (&str, U1024) = match kind {
                0..=4 => {
                    // r^k (+ d): base as wide as fits
                    let bb = (maxbits / k).max(2);
                    let mut b = fit(e, bb);
                    if kind <= 1 {
                        // small bases: high exponents, nested powers
                        b = U1024::from(2 + r % 30);
                    }
                    if b < U1024::from(2u64) {
                        b = U1024::from(2 + r % 7);
                    }
                    let mut kk = k;
                    if kind <= 1 {
                        kk = 2 + (r >> 8) as u32 % ((maxbits as f64 / (b.bits() as f64)).floor() as u32).max(2);
                    }
                    let mut n = U1024::ONE;
                    let mut used = 0;
                    for _ in 0..kk {
                        match n.checked_mul(b) {
                            Some(v) if v.bits() <= maxbits => {
                                n = v;
                                used += 1;
                            }
                            _ => break,
                        }
                    }
                    let _ = used;
                    let n = if d >= 0 { n.saturating_add(U1024::from(d as u64)) } else { n - U1024::ONE };
                    (if d == 0 { "power" } else { "power+-1" }, n)
                }
                5 => ("edgy", fit(e, maxbits)),
                6 => {
                    // prime^k for a 64-bit prime
                    let mut rng = SplitMix(r);
                    let pb = (maxbits / k).clamp(2, 64);
                    let p = U1024::from(prime64(pb, &mut rng));
                    let mut n = U1024::ONE;
                    for _ in 0..k {
                        if let Some(v) = n.checked_mul(p) {
                            if v.bits() <= maxbits {
                                n = v;
                            }
                        }
                    }
                    ("prime-power", n)
                }
                7 => ("small", U1024::from(2 + r % 100_000)),
                8 => {
                    // (a*b)^2 and a^2*b: squares of composites / non-powers with square factors
                    let a = fit(e, maxbits / 4).max(U1024::from(2u64));
                    let b = U1024::from(2 + r % 1000);
                    if r & 1 == 0 {
                        ("composite-square", a * a * b * b)
                    } else {
                        ("square-times", a * a * b)
                    }
                }
                _ => ("top-of-type", fit(U1024::MAX, maxbits) - U1024::from(r % 100)),
            };
            let n = fit(n, maxbits).max(U1024::from(2u64));
            PpCase { words, n, shape: shape.to_string() }
        })
}

fn pp_fixed(ctx: &Ctx) {
    // every n in [2, 2^20] for the u64 instance; every b^k <= 2^64 with b < 2^11 (and +-1)
    let found: Mutex<Option<(PpCase, Fail)>> = Mutex::new(None);
    let note = |c: PpCase, f: Fail| {
        let mut g = found.lock().unwrap();
        if g.as_ref().map_or(true, |(o, _)| c.n < o.n) {
            *g = Some((c, f));
        }
    };
    let hi = ctx.n(1 << 20, 1 << 26);
    let chunks: Vec<u64> = (0..(hi + 65535) / 65536).collect();
    chunks.par_iter().for_each(|&ci| {
        let mut l = Local::new();
        let mut tmp = Local::new();
        for n in (ci * 65536).max(2)..((ci + 1) * 65536).min(hi + 1) {
            let c = PpCase { words: 1, n: U1024::from(n), shape: "exhaustive".into() };
            if let Err(f) = check_pp(&c, &mut tmp) {
                note(c, f);
                break;
            }
        }
        l.cases(tmp.evals);
        l.label_n("perfect_power:exhaustive-small-n", tmp.evals);
        l.nontrivial_bulk(tmp.evals);
        for (k, v) in tmp.labels.iter().filter(|(k, _)| k.ends_with(":some") || k.ends_with(":none")) {
            l.label_n(k, *v);
        }
        ctx.merge(l);
    });
    let bases: Vec<u64> = (2..2048u64).collect();
    bases.par_chunks(32).for_each(|ch| {
        let mut l = Local::new();
        for &b in ch {
            let mut n = b;
            let mut k = 1;
            while let Some(v) = n.checked_mul(b) {
                n = v;
                k += 1;
                for m in [n - 1, n, n.saturating_add(1)] {
                    let c = PpCase { words: 1, n: U1024::from(m), shape: format!("all-powers{}", if m == n { "" } else { "+-1" }) };
                    if let Err(f) = check_pp(&c, &mut l) {
                        note(c, f);
                    }
                    // the same value through the multiword instance
                    let c = PpCase { words: 16, n: U1024::from(m), shape: "all-powers-U1024".into() };
                    if let Err(f) = check_pp(&c, &mut l) {
                        note(c, f);
                    }
                }
            }
            let _ = k;
        }
        ctx.merge(l);
    });
    if let Some((c, f)) = found.into_inner().unwrap() {
        if f.class.starts_with("HARNESS|") {
            ctx.selfcheck_failed(&format!("perfect_power: {}", f.what));
        } else {
            ctx.violation("perfect_power", &f, serde_json::to_value(&c).unwrap());
        }
    }
}

fn isqrt_fixed(ctx: &Ctx) {
    // both u64 routines: all n <= 2^20, all s^2 + {-1,0,1} and s(s+1), s(s+2) + {-1,0} for s in windows
    let mut ss: Vec<u64> = (0..4096).collect();
    for k in [16u32, 24, 26, 27, 31] {
        for d in 0..2048u64 {
            ss.push((1u64 << k) - 1024 + d);
        }
    }
    for d in 0..8192u64 {
        ss.push(u32::MAX as u64 - d); // floor(sqrt(2^64 - 1)) downwards
        ss.push(94_906_265 - 4096 + d); // sqrt(2^53): the f64 mantissa boundary
    }
    let found: Mutex<Option<(IsqrtCase, Fail)>> = Mutex::new(None);
    ss.par_chunks(1024).for_each(|ch| {
        let mut l = Local::new();
        for &s in ch {
            let sq = s as u128 * s as u128;
            for v in [sq.wrapping_sub(1), sq, sq + 1, sq + s as u128, (sq + s as u128).wrapping_sub(1), sq + 2 * s as u128, sq + 2 * s as u128 + 1] {
                if v > u64::MAX as u128 {
                    continue;
                }
                for words in [0usize, 1] {
                    let c = IsqrtCase { words, n: U1024::from(v as u64) };
                    if let Err(f) = check_isqrt(&c, &mut l) {
                        let mut g = found.lock().unwrap();
                        if g.as_ref().map_or(true, |(o, _)| c.n < o.n) {
                            *g = Some((c, f));
                        }
                    }
                }
            }
        }
        ctx.merge(l);
    });
    if let Some((c, f)) = found.into_inner().unwrap() {
        ctx.violation("isqrt", &f, serde_json::to_value(&c).unwrap());
    }
}

// ---------------------------------------------------------------------------

fn trace(ctx: &Ctx, what: &str) {
    if std::env::var("YQV_TRACE").is_ok() {
        eprintln!("[C08 {} {:.1}s] {}", ctx.profile, ctx.elapsed(), what);
    }
}

fn run(ctx: &Ctx) {
    ctx.set_rule(
        "div: every prime p < 2^16 (quick) / < 2^20 (thorough) plus the prime divisors < 2^30 of 2^k+-1 (k <= 63) and the \
         primes next to 2^8..2^30: exhaustive modu16 (p < 2^16) and the complete boundary operand set (multiples of p \
         +-1 adjacent to 2^8, 2^15, 2^16, 2^31, 2^32, 2^62, 2^63, 2^64, 2^96, 2^126, 2^127, 2^128, the same under random / \
         all-ones high words, their negatives, carry-steered 128-bit operands; multiword multiples adjacent to every \
         2^(64k), carry-steered Horner operands) through modu16, divmod64, modu63, modi64, mod_u128, mod_uint<4|16>, \
         divmod_uint<4|16>; proptest strategy over (prime class incl. 25..30-bit primes, operand shape, words in \
         {1,2,4,8,16}).  inverter: every x in [1,p) for every prime < 2^12 (+ 4 primes next to 2^16, 2^20), generated \
         (p < 2^28, x).  inv_mod64: generated (n, p) < 2^63.  sqrt_mod: every residue class for every prime < 2^12, deep \
         2-adic primes (p-1 divisible by 2^14..2^20), generated primes < 2^24 and multiword primes = 3 mod 4 (64-bit \
         certified and Pocklington 65..512 bits in U256/U512/U1024).  pow_mod: u64/U256/U512/U1024 vs left-to-right \
         exponentiation.  isqrt: arith::isqrt on u64/U256/U512/U1024 and squfof::isqrt: s^2+d, s(s+1)+d, s(s+2)+d, 2^k+d, \
         windows at 2^53 and 2^64.  perfect_power (u64, U1024): every n <= 2^20, every b^k <= 2^64 (+-1) for b < 2^11, \
         generated b^k (+-1), prime powers, squares of composites, up to 1024 bits.  Non-trivial = operand within 2p of \
         a power of two or multiword (div), every case of the other checks; distinct by (routine, p, operands).",
    );
    ctx.assume("native integer arithmetic (u16..u128, i128 rem_euclid) and bnum 0.8 + - * / % are correct");
    ctx.assume("domains: Dividers p prime < 2^30; modu63 n < 2^63; Inverter p < 2^28, 1 <= x < p; inv_mod64 n, p < 2^63, p >= 2; sqrt_mod u64 p < 2^24, multiword p = 3 mod 4 with p^2 below the width; pow_mod p >= 2 with p^2 below the width; perfect_power n >= 2");
    if let Err(e) = crate::oracle::word::self_test() {
        ctx.selfcheck_failed(&format!("oracle kit (word): {}", e));
        return;
    }
    trace(ctx, "self-test done");
    // development aid: YQV_ONLY=div,sqrt_mod,... restricts the run to some checks (no vacuity floors then)
    let only = std::env::var("YQV_ONLY").ok();
    let want = |k: &str| only.as_deref().map_or(true, |o| o.split(',').any(|x| x == k));

    // ---- div
    if want("div") {
    let lim = ctx.n(1 << 16, 1 << 20) as u32;
    let mut primes: Vec<u32> = primes24()[..prime_index_at_least(lim.max(1 << 14))].to_vec();
    primes.extend_from_slice(special_primes());
    primes.sort();
    primes.dedup();
    div_fixed(ctx, &primes);
    trace(ctx, "div fixed done");
    ctx.par_prop("div", 32, ctx.n(1_500_000, 300_000_000), div_strategy, check_div);
    trace(ctx, "div generated done");
    }

    // ---- inverter
    if want("inverter") {
    let mut ip: Vec<u32> = primes24()[..prime_index_at_least(ctx.n(1 << 12, 1 << 15) as u32)].to_vec();
    ip.extend(special_primes().iter().copied().filter(|&p| (1 << 15..1 << 21).contains(&p)).take(8));
    inverter_fixed(ctx, &ip);
    ctx.par_prop("inverter", 32, ctx.n(2_000_000, 300_000_000), inverter_strategy, check_inverter);
    trace(ctx, "inverter done");
    }

    // ---- inv_mod64
    if want("inv_mod64") {
    ctx.par_prop("inv_mod64", 32, ctx.n(500_000, 100_000_000), inv64_strategy, check_inv64);
    trace(ctx, "inv_mod64 done");
    }

    // ---- sqrt_mod
    if want("sqrt_mod") {
    sqrt_fixed(ctx);
    trace(ctx, "sqrt fixed done");
    primes_3mod4();
    trace(ctx, "prime pool done");
    ctx.par_prop("sqrt_mod", 32, ctx.n(200_000, 20_000_000), sqrt_strategy, check_sqrt);
    trace(ctx, "sqrt generated done");
    if SQRT_SLOW_CALLS.load(Ordering::Relaxed) >= 8 {
        ctx.inconclusive("sqrt_mod<u64>: 8 calls with p = 1 mod 4 took more than 1 s each (1000x the cost of the search loop); the remaining cases of that branch were skipped");
    }
    }

    // ---- pow_mod
    if want("pow_mod") {
    ctx.par_prop("pow_mod", 32, ctx.n(200_000, 10_000_000), pow_strategy, check_pow);
    trace(ctx, "pow_mod done");
    }

    // ---- isqrt
    if want("isqrt") {
    isqrt_fixed(ctx);
    ctx.par_prop("isqrt", 32, ctx.n(1_000_000, 200_000_000), isqrt_strategy, check_isqrt);
    trace(ctx, "isqrt done");
    }

    // ---- perfect_power
    if want("perfect_power") {
    pp_fixed(ctx);
    trace(ctx, "perfect_power fixed done");
    ctx.par_prop("perfect_power", 32, ctx.n(200_000, 10_000_000), pp_strategy, check_pp);
    trace(ctx, "perfect_power done");
    }

    if only.is_some() {
        return;
    }
    for (e, min) in [
        ("div:fixed:primes", 1000),
        ("div:fixed:modu16-exhaustive", 1 << 24),
        ("div:p<2^16", 10_000),
        ("div:p<2^24", 10_000),
        ("div:p<2^30", 10_000),
        ("div:mod_u128:carry-branch", 1000),
        ("div:mod_uint:carry-branch", 1000),
        ("div:multiword", 10_000),
        ("div:shape:near-multiple", 10_000),
        ("div:shape:negative", 1000),
        ("inverter:exhaustive-x", 100_000),
        ("inverter:p>2^27", 10_000),
        ("inv_mod64:coprime", 10_000),
        ("inv_mod64:common-factor", 1000),
        ("inv_mod64:p>=2^62", 1000),
        ("sqrt_mod:exhaustive-residues", 100_000),
        ("sqrt_mod:residue", 10_000),
        ("sqrt_mod:non-residue", 10_000),
        ("sqrt_mod:zero", 100),
        ("sqrt_mod:u64:p=1mod4,2-adic>=16", 3),
        ("sqrt_mod:U256", 500),
        ("sqrt_mod:U512", 500),
        ("sqrt_mod:U1024", 500),
        ("pow_mod:words:1", 1000),
        ("pow_mod:words:16", 1000),
        ("pow_mod:p-at-half-width", 1000),
        ("isqrt:words:0", 10_000),
        ("isqrt:words:16", 1000),
        ("isqrt:u64:above-2^52(f64 seed rounds)", 10_000),
        ("perfect_power:some", 10_000),
        ("perfect_power:none", 10_000),
        ("perfect_power:exponent>20", 100),
        ("perfect_power:words:16", 1000),
    ] {
        ctx.essential(e, min);
    }
    let _ = json!(null);
}

fn replay(_ctx: &Ctx, check_name: &str, case: &Value) -> Result<(), Fail> {
    match check_name {
        "div" => replay_as::<DivCase>(case, check_div),
        "inverter" => replay_as::<InvCase>(case, check_inverter),
        "inv_mod64" => replay_as::<Inv64Case>(case, check_inv64),
        "sqrt_mod" => replay_as::<SqrtCase>(case, check_sqrt),
        "pow_mod" => replay_as::<PowCase>(case, check_pow),
        "isqrt" => replay_as::<IsqrtCase>(case, check_isqrt),
        "perfect_power" => replay_as::<PpCase>(case, check_pp),
        _ => Err(Fail::new("HARNESS|unknown-check", check_name.to_string())),
    }
}
