//! C13 — sieve reports list every dividing factor-base prime (DESIGN.md section 2, C13).
//!
//! The `Sieve` API takes ROOT TABLES, so the model is exact: prime `j` divides the value at
//! position `i` of block `b` iff `(b*32768 + i) mod p_j` is one of its roots.  Factor bases
//! are real (`FBase::new` for a pool of moduli, sizes on both sides of every prime-size
//! class boundary of sieve.rs), root tables are synthetic: derived from a generated seed,
//! with single-root primes, roots hitting block / bucket boundaries, roots 0 and p-1, and
//! clusters of large primes aimed at one bucket so that the bounded bucket tables overflow.
//! The same `Sieve` state is driven through several polynomials (`recycle`) and through
//! QS-style large-block steps (`rehash` with shifted roots).
//!
//! Oracle (`oracle::sieve_model`): for every reported position the listed prime indices must
//! contain every model divisor, except hits that the model itself shows to lie in a bucket
//! with more than 32 hits of a size class that overflowed more than 32 times in that sieve.
//! Extra primes are tolerated.  End to end: `fbase::cofactor` on a value built as
//! `prod p_j^e_j * c` over the model divisors must leave exactly `c`.
//!
//! A second check (`qs`) feeds the real root tables of the classical quadratic sieve
//! (`SieveQS::init_sieve_for_test`, public) through the same oracle.

use std::collections::HashMap;
use std::str::FromStr;
use std::sync::{Arc, Mutex, OnceLock};

use bnum::cast::CastFrom;
use bnum::types::{I1024, I256, U1024, U256};
use proptest::prelude::*;
use serde::{Deserialize, Serialize};
use serde_json::{json, Value};

use crate::engine::{guard, hash64, replay_as, Ctx, Fail, Local, PropDef};
use crate::gen::pick_idx;
use crate::oracle::int::{jacobi64, ref_isprime64, ref_sieve, SplitMix};
use crate::oracle::sieve_model::{
    bitlen, block_model, divides_by_definition, occupancy, shift_roots, BlockModel, Occupancy, BLOCK, BUCKET_SLOTS,
    BUCKET_WIDTH, LBUCKET_SLOTS, LBUCKET_WIDTH, SPARE_SLOTS,
};
use yamaquasi::fbase::{self, FBase};
use yamaquasi::qsieve::SieveQS;
use yamaquasi::sieve::{Sieve, BLOCK_SIZE};

pub const DEF: PropDef = PropDef {
    id: "C13",
    level: "exploration",
    chk_child: true,
    run,
    replay,
};

/// Largest sum of bit lengths of base primes allowed to divide one modelled value.  Real
/// candidates are integers below 2^256 and the sieve accumulates the bit lengths in a `u8`
/// (plus up to ~40 of threshold compensation): root tables that make more than 200 bits of
/// base primes meet at one position do not describe a polynomial value the callers can
/// produce, so such (rare) cases are counted as excluded, not evaluated.
const MAX_LOGSUM: u32 = 200;
/// at most this many reported positions per block go through the `cofactor` clause
const COFACTOR_PER_BLOCK: usize = 48;

// ---------------------------------------------------------------------------
// Case encoding

#[derive(Clone, Debug, Serialize, Deserialize)]
pub struct Cluster {
    /// bit length of the primes to use (16..=21); mapped to the nearest class present
    pub class: u8,
    /// target block (monotone map onto 0..nblocks)
    pub block: u8,
    /// in-block offset of the window (aligned down to the bucket width of the class)
    pub off: u16,
    /// number of distinct positions of the window
    pub width: u16,
    /// number of primes given a root inside the window
    pub hits: u16,
    /// 0 scattered indices, 1 consecutive indices, 2 indices with equal low 8 bits
    pub pick: u8,
}

#[derive(Clone, Debug, Serialize, Deserialize)]
pub struct Phase {
    /// "fresh" (always the first), "recycled" (new roots through the recycled state),
    /// "rehash" (the previous roots shifted by one interval, `Sieve::rehash`)
    pub kind: String,
    #[serde(with = "crate::ser::u64s")]
    pub seed: u64,
    /// primes below 2^14 given a single root
    pub singles: u8,
    /// primes in [2^14, 2^15) given a single root (evaluated by the opt profile only)
    pub singles_hi: u8,
    /// primes per special target position (0, 1, block and bucket boundaries, last position)
    pub edges: u8,
    pub clusters: Vec<Cluster>,
    /// sieve only that many blocks (0 = all); ignored when a rehash phase follows
    pub stop_after: u8,
}

#[derive(Clone, Debug, Serialize, Deserialize)]
pub struct SieveCase {
    /// modulus of the factor base (signed decimal)
    pub n: String,
    /// size argument of `FBase::new`
    pub size: u32,
    pub nblocks: u8,
    pub phases: Vec<Phase>,
    /// threshold of a block = smallest t such that at most `reports` positions have a
    /// model log-sum >= t; 0 = use `thr`
    pub reports: u32,
    pub thr: u8,
    pub root: Option<u32>,
    /// extra (unused) entries at the end of the root tables
    pub pad: u8,
    /// large prime bound = largest base prime * this
    pub maxlarge_mul: u32,
    #[serde(with = "crate::ser::u64s")]
    pub xseed: u64,
}

#[derive(Clone, Debug, Serialize, Deserialize)]
pub struct QsCase {
    /// modulus (positive decimal, 40..250 bits)
    pub n: String,
    pub size: u32,
    pub reports: u32,
    /// number of large-block steps (`rehash`) after the first interval
    pub rehashes: u8,
    #[serde(with = "crate::ser::u64s")]
    pub xseed: u64,
}

// ---------------------------------------------------------------------------
// Factor bases: pool of moduli, boundary sizes (computed by the oracle kit), cache

const MODULI: [&str; 6] = [
    // the modulus of the repository's own sieve test
    "176056248311966088405511077755578022771",
    "1037510308142021112704792564947",
    // negative (class group use)
    "-1563849171863495214507949103370077342033765608728382665100245282240408041",
    "1499802708882526909122644146289721370711415544090318473858983",
    // 3 * (140-bit semiprime): the base contains a prime dividing n
    "1885030388327822300220077818763618498569053",
    "1420239033309714984094415212531751615454438351340772432135724366126533462488286213242822097387831",
];

fn moduli(thorough: bool) -> Vec<String> {
    let mut v: Vec<String> = MODULI.iter().map(|s| s.to_string()).collect();
    if thorough {
        let mut r = SplitMix(0xC13_0001);
        for k in 0..10u32 {
            let bits = 60 + 37 * k;
            let x: U1024 = r.bits::<16>(bits) | U1024::ONE | (U1024::ONE << (bits - 1));
            v.push(if k % 4 == 3 { format!("-{}", x) } else { x.to_string() });
        }
    }
    v
}

fn max_size(thorough: bool) -> u32 {
    if thorough {
        80_000
    } else {
        24_000
    }
}

fn mod_small(nabs: &U1024, neg: bool, p: u64) -> u64 {
    let mut r: u128 = 0;
    for &d in nabs.digits().iter().rev() {
        r = ((r << 64) | d as u128) % p as u128;
    }
    let r = r as u64;
    if neg && r != 0 {
        p - r
    } else {
        r
    }
}

/// Primes below `limit` modulo which n is a square (or zero): what a factor base for n
/// consists of, computed with the oracle kit only.
fn oracle_fb_primes(n: &I1024, limit: u64) -> Vec<u32> {
    let neg = n.is_negative();
    let nabs = n.unsigned_abs();
    ref_sieve(limit)
        .into_iter()
        .filter(|&p| {
            if p == 2 {
                return true;
            }
            let m = mod_small(&nabs, neg, p as u64);
            m == 0 || jacobi64(m, p as u64) == 1
        })
        .collect()
}

fn parse_n(s: &str) -> Result<I1024, Fail> {
    I1024::from_str(s).map_err(|_| Fail::new("HARNESS|bad-modulus", format!("cannot parse modulus {}", s)))
}

/// Sizes that put the largest base prime just below / just above each size-class boundary
/// of sieve.rs, plus the lengths at which the number of skipped small primes changes and
/// at which prime indices exceed 16 bits.
fn boundary_sizes(n: &str, thorough: bool) -> Arc<Vec<u32>> {
    static CACHE: OnceLock<Mutex<HashMap<(String, bool), Arc<Vec<u32>>>>> = OnceLock::new();
    let cache = CACHE.get_or_init(|| Mutex::new(HashMap::new()));
    if let Some(v) = cache.lock().unwrap().get(&(n.to_string(), thorough)) {
        return v.clone();
    }
    let ni = I1024::from_str(n).expect("pool modulus");
    let kmax = if thorough { 21 } else { 19 };
    let list = oracle_fb_primes(&ni, (1u64 << kmax) + (1 << 14));
    let msz = max_size(thorough);
    let mut out: Vec<u32> = vec![8, 16, 64, 256, 264];
    for k in 12..=kmax {
        let idx = list.partition_point(|&p| (p as u64) < (1u64 << k)) as u32;
        let b = idx / 8 * 8;
        for s in [b, b + 8, b + 16] {
            if s >= 8 && s <= msz {
                out.push(s);
            }
        }
    }
    for s in [1992u32, 2000, 4992, 5000, 9992, 10000, 19992, 20000, 49992, 50000, 65536, 65544] {
        if s <= msz {
            out.push(s);
        }
    }
    out.sort();
    out.dedup();
    let v = Arc::new(out);
    cache.lock().unwrap().insert((n.to_string(), thorough), v.clone());
    v
}

fn fbase_for(n: &str, size: u32) -> Result<Arc<FBase>, Fail> {
    static CACHE: OnceLock<Mutex<(HashMap<(String, u32), Arc<FBase>>, usize)>> = OnceLock::new();
    let cache = CACHE.get_or_init(|| Mutex::new((HashMap::new(), 0)));
    if let Some(f) = cache.lock().unwrap().0.get(&(n.to_string(), size)) {
        return Ok(f.clone());
    }
    let ni = parse_n(n)?;
    let fb = guard("FBase::new", || FBase::new(ni, size))?;
    let fb = Arc::new(fb);
    let mut g = cache.lock().unwrap();
    // bounded: about 40 bytes per prime
    if g.1 + fb.len() < 3_000_000 {
        g.1 += fb.len();
        g.0.insert((n.to_string(), size), fb.clone());
    }
    Ok(fb)
}

// ---------------------------------------------------------------------------
// Synthetic root tables

struct Roots {
    r1: Vec<u32>,
    r2: Vec<u32>,
}

struct RootBuilder<'a> {
    primes: &'a [u32],
    r1: Vec<u32>,
    r2: Vec<u32>,
    single: Vec<bool>,
    rng: SplitMix,
}

impl<'a> RootBuilder<'a> {
    /// make prime j divide absolute position t (through its first or second root)
    fn set_hit(&mut self, j: usize, t: u64, first: bool) {
        let p = self.primes[j];
        let r = (t % p as u64) as u32;
        if self.single[j] || p == 2 {
            self.r1[j] = r;
            self.r2[j] = r;
            return;
        }
        let other = (r as u64 + 1 + self.rng.below(p as u64 - 1)) % p as u64;
        if first {
            self.r1[j] = r;
            if self.r2[j] == r {
                self.r2[j] = other as u32;
            }
        } else {
            self.r2[j] = r;
            if self.r1[j] == r {
                self.r1[j] = other as u32;
            }
        }
    }
}

/// index range of the primes of bit length `l`
fn class_range(primes: &[u32], l: u32) -> (usize, usize) {
    let lo = primes.partition_point(|&p| bitlen(p) < l);
    let hi = primes.partition_point(|&p| bitlen(p) <= l);
    (lo, hi)
}

fn build_roots(primes: &[u32], ph: &Phase, nblocks: usize) -> Roots {
    let len = primes.len();
    let interval = (nblocks * BLOCK) as u64;
    let mut b = RootBuilder {
        primes,
        r1: vec![0; len],
        r2: vec![0; len],
        single: vec![false; len],
        rng: SplitMix(ph.seed ^ 0x5eed_0c13),
    };
    for j in 0..len {
        let p = primes[j] as u64;
        if p == 2 {
            // the callers give (0,1) "superset" or the single true root
            let (x, y) = match b.rng.below(3) {
                0 => (0, 1),
                1 => (0, 0),
                _ => (1, 1),
            };
            b.r1[j] = x;
            b.r2[j] = y;
        } else {
            let x = b.rng.below(p);
            let mut y = b.rng.below(p - 1);
            if y >= x {
                y += 1;
            }
            b.r1[j] = x as u32;
            b.r2[j] = y as u32;
        }
    }
    // single-root primes (divisors of A / of n)
    let start = if primes[0] == 2 { 1 } else { 0 };
    let n14 = primes.partition_point(|&p| p < 1 << 14);
    let n15 = primes.partition_point(|&p| p < 1 << 15);
    for _ in 0..ph.singles {
        if n14 > start {
            let span = if b.rng.below(2) == 0 { (n14 - start).min(16) } else { n14 - start };
            let j = start + b.rng.below(span as u64) as usize;
            b.r2[j] = b.r1[j];
            b.single[j] = true;
        }
    }
    for _ in 0..ph.singles_hi {
        if n15 > n14 {
            let j = n14 + b.rng.below((n15 - n14) as u64) as usize;
            b.r2[j] = b.r1[j];
            b.single[j] = true;
        }
    }
    // special target positions: at most `edges` (<= 3) primes each
    let edges = ph.edges.min(3) as usize;
    if edges > 0 {
        let maxlog = bitlen(primes[len - 1]);
        let mut targets: Vec<u64> = vec![
            0,
            1,
            interval - 1,
            32767,
            16383,
            16384,
            255,
            256,
            interval - BLOCK as u64,
            interval - 16384,
        ];
        if nblocks > 1 {
            targets.push(32768);
            targets.push(interval - BLOCK as u64 - 1);
        }
        if nblocks > 2 {
            targets.push(65535);
            targets.push(65536);
        }
        for t in targets {
            for _ in 0..edges {
                // a prime of a uniformly chosen size class
                let l = 2 + b.rng.below(maxlog as u64 - 1) as u32;
                let (lo, hi) = class_range(primes, l);
                if hi > lo {
                    let j = lo + b.rng.below((hi - lo) as u64) as usize;
                    let first = b.rng.below(2) == 0;
                    b.set_hit(j, t, first);
                }
            }
        }
        // roots p-1 and 0
        for _ in 0..edges {
            let j = b.rng.below(len as u64) as usize;
            if !b.single[j] && primes[j] > 2 {
                b.r1[j] = primes[j] - 1;
                b.r2[j] = 0;
            }
        }
    }
    // clusters: many primes of one class aimed at one window
    for cl in &ph.clusters {
        let maxlog = bitlen(primes[len - 1]);
        if maxlog < 16 {
            continue;
        }
        let l = (cl.class as u32).clamp(16, maxlog);
        let (lo, hi) = class_range(primes, l);
        if hi <= lo {
            continue;
        }
        let n = hi - lo;
        let wmax = if l <= 18 { BUCKET_WIDTH } else { LBUCKET_WIDTH };
        let blk = pick_idx((cl.block as u16) << 8, nblocks) as u64;
        let off = (cl.off as usize % BLOCK) / wmax * wmax;
        // the bounded tables print a warning line per overflow beyond 64: keep their clusters small
        let mut hits = (cl.hits as usize).min(n).min(if l <= 18 { 220 } else { 1400 });
        // at most 8 (6 for the very large classes) primes of the cluster per position, so that
        // a special target position inside the window stays below MAX_LOGSUM
        let per = if l <= 18 { 8 } else { 6 };
        let width = (cl.width as usize).clamp(1, wmax).max((hits + per - 1) / per).min(wmax);
        hits = hits.min(per * width);
        let s = b.rng.below(n as u64) as usize;
        let step = 1 + 2 * b.rng.below((n as u64 / 2).max(1)) as usize;
        for k in 0..hits {
            let j = match cl.pick % 3 {
                1 => lo + (s + k) % n,
                2 => lo + (s + 256 * k) % n,
                _ => lo + (s + k * step) % n,
            };
            let t = blk * BLOCK as u64 + (off + k % width) as u64;
            let first = b.rng.below(2) == 0;
            b.set_hit(j, t, first);
        }
    }
    Roots { r1: b.r1, r2: b.r2 }
}

// ---------------------------------------------------------------------------
// The oracle for one block

fn size_class_name(fb_idxskip_primes: usize, j: usize, p: u32) -> &'static str {
    let l = bitlen(p);
    if j < fb_idxskip_primes {
        "skipped-small"
    } else if l <= 12 {
        "log<=12"
    } else if l <= 14 {
        "log13-14"
    } else if l == 15 {
        "log15"
    } else if l == 16 {
        "log16"
    } else if l == 17 {
        "log17"
    } else if l == 18 {
        "log18"
    } else {
        "log>=19"
    }
}

/// number of smallest primes the sieve skips (documented table in `Sieve::new`)
fn pskip(len: usize) -> u32 {
    match len {
        0..=1999 => 3,
        2000..=4999 => 5,
        5000..=9999 => 7,
        10000..=19999 => 11,
        20000..=49999 => 13,
        _ => 17,
    }
}

struct Shared<'a> {
    fb: &'a FBase,
    entry: &'static str,
    case_key: u64,
    nblocks: usize,
    maxlarge: u64,
    xseed: u64,
}

/// per-phase bookkeeping of hits that may legitimately be missing
struct MissingBudget {
    /// (class - 16, bucket) -> missing hits seen
    per_bucket: HashMap<(usize, usize), u32>,
    per_class: [u64; 3],
}

#[allow(clippy::too_many_arguments)]
fn check_reports(
    sh: &Shared,
    l: &mut Local,
    phase_idx: usize,
    phase_kind: &str,
    blk: usize,
    model: &BlockModel,
    occ: &Occupancy,
    r1: &[u32],
    r2: &[u32],
    idxs: &[u16],
    facss: &[Vec<usize>],
    budget: &mut MissingBudget,
    blocks_since_new: u64,
) -> Result<(), Fail> {
    let fb = sh.fb;
    let primes = &fb.primes;
    let len = primes.len();
    let nskip = primes.iter().position(|&p| p > pskip(len)).unwrap_or(len);
    let e = sh.entry;
    ensure!(
        idxs.len() == facss.len(),
        format!("{}|report-lists-differ-in-length", e),
        "smooths returned {} positions but {} factor lists",
        idxs.len(),
        facss.len()
    );
    l.label_n("reports", idxs.len() as u64);
    // one evaluation of the property = one reported position checked against the model
    l.cases(idxs.len() as u64);
    let mut cof_done = 0usize;
    // label counters of this block (flushed at the end)
    const NAMES: [&str; 14] = [
        "report:class16",
        "report:class17",
        "report:class18",
        "report:class>=19",
        "report:prime-index>=65536",
        "report:log15-second-hit",
        "report:single-root-prime",
        "report:prime-found-in-overflowing-bucket",
        "missing:counted-overflow",
        "report:prime>=2^15",
        "report:extra-prime-listed:spurious-cursor-of-single-root-prime",
        "report:extra-prime-listed:u16-wrap-of-single-root-log15",
        "report:extra-prime-listed:unexplained",
        "report:with-all-divisors",
    ];
    let mut cnt = [0u64; 14];
    for (k, &i) in idxs.iter().enumerate() {
        let i = i as usize;
        ensure!(
            i < BLOCK,
            format!("{}|position-outside-block", e),
            "reported position {} is outside the block",
            i
        );
        let facs = &facss[k];
        if let Some(&bad) = facs.iter().find(|&&j| j >= len) {
            return Err(Fail::new(
                format!("{}|prime-index-outside-base", e),
                format!("position {} of block {} lists prime index {} but the base has {} primes", i, blk, bad, len),
            ));
        }
        let want = model.at(i);
        let mut has_large = false;
        let mut complete = true;
        for &j in want {
            let j = j as usize;
            let p = primes[j];
            let lg = bitlen(p);
            if lg >= 16 {
                has_large = true;
            }
            if facs.contains(&j) {
                match lg {
                    16 => cnt[0] += 1,
                    17 => cnt[1] += 1,
                    18 => cnt[2] += 1,
                    19.. => {
                        cnt[3] += 1;
                        if j >= 1 << 16 {
                            cnt[4] += 1;
                        }
                    }
                    15 => {
                        if i >= p as usize {
                            cnt[5] += 1;
                        }
                    }
                    _ => {}
                }
                if r1[j] == r2[j] && p > 2 {
                    cnt[6] += 1;
                }
                if (16..=18).contains(&lg) {
                    let c = (lg - 16) as usize;
                    let b = (blk * BLOCK + i) / BUCKET_WIDTH;
                    if occ.small[c][b] as u32 > BUCKET_SLOTS {
                        cnt[7] += 1;
                    }
                }
                continue;
            }
            // a model divisor is not listed: only a counted overflow excuses it
            if (16..=18).contains(&lg) {
                let c = (lg - 16) as usize;
                let b = (blk * BLOCK + i) / BUCKET_WIDTH;
                if occ.small[c][b] as u32 > BUCKET_SLOTS && occ.over_total[c] > SPARE_SLOTS {
                    *budget.per_bucket.entry((c, b)).or_insert(0) += 1;
                    budget.per_class[c] += 1;
                    cnt[8] += 1;
                    complete = false;
                    continue;
                }
            }
            let cls = size_class_name(nskip, j, p);
            return Err(Fail::new(
                format!("{}|missing-prime|{}", e, cls),
                format!(
                    "phase {} ({}) block {} position {}: prime #{} = {} (roots {},{}) divides the value (position mod p = {}) \
                     but is not in the reported list {:?}; base of {} primes up to {}, {} blocks{}",
                    phase_idx,
                    phase_kind,
                    blk,
                    i,
                    j,
                    p,
                    r1[j],
                    r2[j],
                    (blk * BLOCK + i) as u64 % p as u64,
                    facs.iter().map(|&j| primes[j]).collect::<Vec<_>>(),
                    len,
                    primes[len - 1],
                    sh.nblocks,
                    if (16..=18).contains(&lg) {
                        let c = (lg - 16) as usize;
                        format!(
                            "; bucket holds {} hits of its class, class overflowed {} times",
                            occ.small[c][(blk * BLOCK + i) / BUCKET_WIDTH],
                            occ.over_total[c]
                        )
                    } else {
                        String::new()
                    }
                ),
            )
            .with_detail(phase_kind.to_string()));
        }
        for &j in facs.iter().filter(|&&j| !want.contains(&(j as u32))) {
            // tolerated by the property; counted as evidence, with the two explanations known
            // from reading sieve.rs (see `phantom_bits`)
            let p = primes[j] as u64;
            let single = r1[j] == r2[j];
            let abs_new = blocks_since_new * BLOCK as u64 + i as u64;
            if single && blocks_since_new >= 1 && bitlen(primes[j]) <= 15 && (abs_new - BLOCK as u64) % p == 0 {
                cnt[10] += 1;
            } else if single && bitlen(primes[j]) == 15 && i as u64 == p - 1 {
                cnt[11] += 1;
            } else {
                cnt[12] += 1;
                l.sample("report:extra-prime-listed:unexplained", || {
                    json!({"phase": phase_idx, "block": blk, "position": i, "prime": p, "roots": [r1[j], r2[j]]})
                });
            }
        }
        if has_large {
            cnt[9] += 1;
        }
        if complete {
            cnt[13] += 1;
        }
        if (has_large || blk > 0 || phase_idx > 0) && k < 16 {
            l.nontrivial(hash64(&(sh.case_key, phase_idx, blk, i)));
        }
        // end to end: cofactor() on a value with exactly the model divisors
        if complete && cof_done < COFACTOR_PER_BLOCK {
            cof_done += 1;
            check_cofactor(sh, l, phase_idx, blk, i, want, facs)?;
        }
    }
    for (name, &c) in NAMES.iter().zip(&cnt) {
        if c > 0 {
            l.label_n(name, c);
        }
    }
    Ok(())
}

fn check_cofactor(
    sh: &Shared,
    l: &mut Local,
    phase_idx: usize,
    blk: usize,
    i: usize,
    want: &[u32],
    facs: &[usize],
) -> Result<(), Fail> {
    let fb = sh.fb;
    let primes = &fb.primes;
    let maxprime = *primes.last().unwrap() as u64;
    let mut rng = SplitMix(hash64(&(sh.xseed, phase_idx, blk, i)));
    // every model divisor once (at most MAX_LOGSUM bits), then some higher powers while room is left
    let mut x = U256::ONE;
    let mut expo: Vec<(u64, u32)> = vec![];
    for &j in want {
        let p = primes[j as usize];
        x *= U256::from(p as u64);
        expo.push((p as u64, 1));
    }
    if x.bits() > MAX_LOGSUM + 1 {
        return Err(Fail::new("HARNESS|value-too-large", "model divisors exceed MAX_LOGSUM bits"));
    }
    for k in 0..expo.len() {
        let p = expo[k].0;
        let extra = if p < 256 && rng.below(3) == 0 {
            1 + rng.below(4) as u32
        } else if rng.below(16) == 0 {
            1
        } else {
            0
        };
        for _ in 0..extra {
            if x.bits() + (64 - p.leading_zeros()) >= 215 {
                break;
            }
            x *= U256::from(p);
            expo[k].1 += 1;
        }
    }
    let neg = rng.below(2) == 0;
    // `double` only for odd values: if a (defective) library left an even cofactor, the
    // double-large-prime splitter would never return (mg_2adic_inv of an even number, the
    // mechanism of DESIGN F2) and the run would end as a timeout instead of a verdict
    let double = rng.below(2) == 0 && !x.is_zero() && x.digits()[0] & 1 == 1;
    // with `double`, a cofactor above maxprime^2 goes to a heuristic splitter (a prime there is
    // dropped: lost relation, not part of the property): stay below
    let cmax = if double { sh.maxlarge.min(maxprime * maxprime) } else { sh.maxlarge };
    let mut c = 1u64;
    if cmax > maxprime && rng.below(2) == 0 {
        let mut q = maxprime + 1 + rng.below(cmax - maxprime);
        let mut tries = 0;
        while q <= cmax && tries < 2000 {
            if ref_isprime64(q) {
                c = q;
                break;
            }
            q += 1;
            tries += 1;
        }
    }
    x *= U256::from(c);
    let xi = if neg { -I256::cast_from(x) } else { I256::cast_from(x) };
    let res = guard("fbase::cofactor", || fbase::cofactor(fb, &xi, facs, sh.maxlarge, double))?;
    l.label("cofactor:checked");
    if c > 1 {
        l.label("cofactor:c>1");
    }
    if expo.iter().any(|&(_, e)| e > 1) {
        l.label("cofactor:prime-power");
    }
    let ctx_txt = || {
        format!(
            "x = {} (= {}prod {:?} * {}), listed primes {:?}, maxlarge {}, double {}",
            xi,
            if neg { "-" } else { "" },
            expo,
            c,
            facs.iter().map(|&j| primes[j]).collect::<Vec<_>>(),
            sh.maxlarge,
            double
        )
    };
    let Some(((p, q), factors)) = res else {
        return Err(Fail::new(
            "fbase::cofactor|none-for-admissible-cofactor",
            format!("cofactor returned None although the cofactor {} is admissible: {}", c, ctx_txt()),
        ));
    };
    ensure!(
        p as u128 * q as u128 == c as u128,
        "fbase::cofactor|wrong-cofactor",
        "cofactor left ({}, {}) instead of {}: {}",
        p,
        q,
        c,
        ctx_txt()
    );
    let mut prod = U256::from(c);
    let mut sign = false;
    for &(f, e) in &factors {
        if f == -1 {
            sign ^= e % 2 == 1;
            continue;
        }
        ensure!(
            f >= 2 && prod.bits() + (e as u32) * (64 - (f as u64).leading_zeros()) < 250,
            "fbase::cofactor|factors-do-not-multiply-to-x",
            "bad factor ({}, {}): {}",
            f,
            e,
            ctx_txt()
        );
        for _ in 0..e {
            prod *= U256::from(f as u64);
        }
    }
    ensure!(
        prod == x && sign == neg,
        "fbase::cofactor|factors-do-not-multiply-to-x",
        "factors {:?} and cofactor {} do not multiply to x: {}",
        factors,
        c,
        ctx_txt()
    );
    Ok(())
}

/// Threshold rule of a block (see `SieveCase::reports`).
fn threshold_for(model: &BlockModel, reports: u32, thr: u8) -> u8 {
    if reports == 0 {
        return thr.max(1);
    }
    let mut hist = [0u32; 512];
    for &s in &model.sums {
        hist[(s as usize).min(511)] += 1;
    }
    let mut above = 0u32;
    let mut t = 255usize;
    // smallest t with #{S >= t} <= reports
    for s in (1..512).rev() {
        if above + hist[s] > reports {
            t = s + 1;
            break;
        }
        above += hist[s];
        t = s;
    }
    t.clamp(1, 255) as u8
}

/// Spurious cursor of single-root primes: from the second block after `Sieve::new` on, the
/// unused second cursor of a single-root prime behaves like a root at the start of that
/// block (it only produces extra hits, which the property tolerates); it is modelled here
/// only to keep the accumulated bit lengths inside a `u8`.
fn phantom_bits(primes: &[u32], nskip: usize, singles: &[usize], blocks_since_new: u64, out: &mut [u16]) {
    out.fill(0);
    if blocks_since_new == 0 {
        return;
    }
    let start = blocks_since_new * BLOCK as u64;
    for &j in singles {
        let p = primes[j] as u64;
        if j < nskip || bitlen(primes[j]) > 15 {
            continue;
        }
        // hits at BLOCK + k*p (absolute since Sieve::new)
        let rel = start - BLOCK as u64;
        let mut x = (p - rel % p) % p;
        while x < BLOCK as u64 {
            out[x as usize] += bitlen(primes[j]) as u16;
            x += p;
        }
    }
}

// ---------------------------------------------------------------------------
// Driving one Sieve object

struct Driver<'a> {
    sh: Shared<'a>,
    reports: u32,
    thr: u8,
    root: Option<u32>,
    pad: usize,
}

enum Outcome {
    Done,
    /// the root tables put more than MAX_LOGSUM bits of base primes on one position
    Unrealistic,
}

impl<'a> Driver<'a> {
    /// Sieve `nb` blocks of the current large block with roots (r1, r2), checking every report.
    #[allow(clippy::too_many_arguments)]
    fn run_blocks(
        &self,
        l: &mut Local,
        s: &mut Sieve<'a>,
        phase_idx: usize,
        kind: &str,
        r1: &[u32],
        r2: &[u32],
        nb: usize,
        blocks_since_new: &mut u64,
    ) -> Result<Outcome, Fail> {
        let fb = self.sh.fb;
        let primes = &fb.primes;
        let len = primes.len();
        let nblocks = self.sh.nblocks;
        let nskip = primes.iter().position(|&p| p > pskip(len)).unwrap_or(len);
        let occ = occupancy(primes, r1, r2, nblocks);
        // evidence: the library's own overflow counters against the model's
        let mut counters_agree = true;
        for (t, table) in s.tables.iter().enumerate() {
            if t < 3 && table.verif_n_overflows() as u64 != occ.over_total[t] {
                counters_agree = false;
            }
        }
        l.label(if counters_agree {
            "evidence:overflow-counters-agree-with-model"
        } else {
            "evidence:overflow-counters-differ-from-model"
        });
        let mut any_over = false;
        for c in 0..3 {
            if occ.over_total[c] > SPARE_SLOTS {
                l.label("overflow:beyond-spare-slots");
                any_over = true;
            } else if occ.over_total[c] > 0 {
                l.label("overflow:kept-in-spare-slots");
                any_over = true;
            }
        }
        let mut lover = false;
        for t in &occ.large {
            if t.iter().any(|&h| h > LBUCKET_SLOTS) {
                lover = true;
            }
        }
        if lover {
            l.label("overflow:very-large-bucket");
        }
        if !any_over && !lover {
            l.label("overflow:none");
        }
        let mut pr1 = r1.to_vec();
        let mut pr2 = r2.to_vec();
        pr1.resize(len + self.pad, 0);
        pr2.resize(len + self.pad, 0);
        let singles: Vec<usize> = (0..len).filter(|&j| r1[j] == r2[j]).collect();
        let mut phantom = vec![0u16; BLOCK];
        let mut budget = MissingBudget {
            per_bucket: HashMap::new(),
            per_class: [0; 3],
        };
        let skipbits: u32 = primes[..nskip].iter().map(|&p| bitlen(p)).sum::<u32>() + if self.root.is_some() { 15 } else { 0 };
        for b in 0..nb {
            let model = block_model(primes, r1, r2, b as u64);
            phantom_bits(primes, nskip, &singles, *blocks_since_new, &mut phantom);
            let worst = (0..BLOCK).map(|i| model.sums[i] as u32 + phantom[i] as u32).max().unwrap_or(0);
            if worst > MAX_LOGSUM {
                return Ok(Outcome::Unrealistic);
            }
            // self-check of the enumerating model against the definition on two positions
            for probe in [hash64(&(self.sh.case_key, phase_idx, b, 1u8)), hash64(&(self.sh.case_key, phase_idx, b, 2u8))] {
                let i = (probe % BLOCK as u64) as usize;
                let abs = (b * BLOCK + i) as u64;
                let direct: Vec<u32> = (0..len as u32)
                    .filter(|&j| divides_by_definition(abs, primes[j as usize], r1[j as usize], r2[j as usize]))
                    .collect();
                if direct != model.at(i) {
                    return Err(Fail::new("HARNESS|model-mismatch", format!("model differs from the definition at {}", abs)));
                }
            }
            guard("Sieve::sieve_block", || s.sieve_block())?;
            let thr = threshold_for(&model, self.reports, self.thr);
            if (thr as u32) < 2 * skipbits {
                l.label("threshold:compensation-clamped");
            }
            let (idxs, facss) = guard(self.sh.entry, || s.smooths(thr, self.root, [&pr1[..], &pr2[..]]))?;
            l.label("blocks");
            if b > 0 {
                l.label("blocks:after-the-first");
            }
            check_reports(&self.sh, l, phase_idx, kind, b, &model, &occ, r1, r2, &idxs, &facss, &mut budget, *blocks_since_new)?;
            // evidence only: completeness of the candidate set (not part of the property)
            if !any_over && !lover && thr as u32 >= 2 * skipbits {
                let expected = model.sums.iter().filter(|&&sm| sm as u32 > thr as u32).count();
                let mut rep = vec![false; BLOCK];
                for &i in &idxs {
                    rep[i as usize % BLOCK] = true;
                }
                let unreported = (0..BLOCK).filter(|&i| model.sums[i] as u32 > thr as u32 && !rep[i]).count();
                l.label_n("evidence:candidates-above-threshold", expected as u64);
                l.label_n("evidence:candidates-above-threshold-unreported", unreported as u64);
            }
            guard("Sieve::next_block", || s.next_block())?;
            *blocks_since_new += 1;
        }
        // the number of forgotten hits cannot exceed the number of uncounted overflow events
        for (&(c, b), &m) in budget.per_bucket.iter() {
            let room = occ.small[c][b] as u32 - BUCKET_SLOTS;
            ensure!(
                m <= room,
                format!("{}|missing-prime|more-than-the-bucket-overflowed", self.sh.entry),
                "phase {}: bucket {} of class {} holds {} hits (32 slots) but {} dividing primes are not reported",
                phase_idx,
                b,
                c + 16,
                occ.small[c][b],
                m
            );
        }
        for c in 0..3 {
            ensure!(
                budget.per_class[c] <= occ.over_total[c].saturating_sub(SPARE_SLOTS),
                format!("{}|missing-prime|more-than-the-class-overflowed", self.sh.entry),
                "phase {}: class {} overflowed {} times (32 spare slots) but {} dividing primes are not reported",
                phase_idx,
                c + 16,
                occ.over_total[c],
                budget.per_class[c]
            );
        }
        Ok(Outcome::Done)
    }
}

fn fb_labels(l: &mut Local, fb: &FBase) {
    let primes = &fb.primes;
    let maxp = *primes.last().unwrap();
    let ml = bitlen(maxp);
    l.label(&format!("fb:maxlog={:02}", ml));
    l.label(&format!("fb:pskip={:02}", pskip(primes.len())));
    // largest prime within 1/32 of a class boundary
    for k in [12u32, 13, 14, 15, 16, 17, 18, 19, 20, 21] {
        let b = 1u32 << k;
        let above = primes.iter().rev().take_while(|&&p| p >= b).count();
        if (1..=16).contains(&above) {
            l.label(&format!("fb:largest-prime-just-above-2^{}", k));
        }
        if maxp < b && b - maxp < b / 64 {
            l.label(&format!("fb:largest-prime-just-below-2^{}", k));
        }
    }
    if primes.len() > 1 << 16 {
        l.label("fb:more-than-65536-primes");
    }
}

pub fn check(c: &SieveCase, l: &mut Local) -> Result<(), Fail> {
    let nblocks = c.nblocks as usize;
    if !(1..=64).contains(&nblocks) || c.size < 8 || c.size > 120_000 || c.phases.is_empty() || c.phases.len() > 6 {
        return Err(Fail::new("HARNESS|out-of-domain", "nblocks 1..=64, size 8..=120000, 1..=6 phases"));
    }
    l.label("cases:sieve");
    let chk = cfg!(debug_assertions);
    if chk && c.phases.iter().any(|p| p.singles_hi > 0) && std::env::var("YQV_C13_SINGLES_HI_UNDER_CHK").is_err() {
        // a single-root prime in [2^14, 2^15) makes `off + p` wrap in smooths (u16): harmless
        // in release (an extra prime may be listed), an overflow panic under the chk profile;
        // no caller produces it except for a base prime dividing n (DESIGN S3, filed under C03)
        l.label("excluded:single-root-log15-under-chk");
        return Ok(());
    }
    let fb = fbase_for(&c.n, c.size)?;
    let fb: &FBase = &fb;
    let primes = &fb.primes;
    let len = primes.len();
    if len == 0 {
        return Err(Fail::new("HARNESS|empty-base", "factor base is empty"));
    }
    fb_labels(l, fb);
    l.label(&format!("nblocks={:02}", nblocks));
    l.label(if c.root.is_some() { "root-hint:some" } else { "root-hint:none" });
    let maxprime = primes[len - 1] as u64;
    let drv = Driver {
        sh: Shared {
            fb,
            entry: "Sieve::smooths",
            case_key: hash64(&serde_json::to_string(c).unwrap_or_default()),
            nblocks,
            maxlarge: maxprime * c.maxlarge_mul.clamp(1, 1 << 10) as u64,
            xseed: c.xseed,
        },
        reports: c.reports,
        thr: c.thr,
        root: c.root,
        pad: c.pad as usize,
    };
    let interval = (nblocks * BLOCK) as u64;
    let mut sieve: Option<Sieve> = None;
    let mut roots: Option<Roots> = None;
    let mut since_new = 0u64;
    let mut completed = true;
    for (pi, ph) in c.phases.iter().enumerate() {
        let kind: &str = if pi == 0 { "fresh" } else { ph.kind.as_str() };
        let next_is_rehash = c.phases.get(pi + 1).map(|p| p.kind == "rehash").unwrap_or(false);
        let nb = if next_is_rehash || ph.stop_after == 0 { nblocks } else { (ph.stop_after as usize).min(nblocks) };
        match kind {
            "fresh" | "recycled" => {
                let r = build_roots(primes, ph, nblocks);
                let mut p1 = r.r1.clone();
                let mut p2 = r.r2.clone();
                p1.resize(len + c.pad as usize, 0);
                p2.resize(len + c.pad as usize, 0);
                let rec = match (kind, sieve.take()) {
                    ("recycled", Some(s)) => Some(guard("Sieve::recycle", || s.recycle())?),
                    _ => None,
                };
                let s = guard("Sieve::new", || Sieve::new(-((interval / 2) as i64), nblocks, fb, [&p1[..], &p2[..]], rec))?;
                sieve = Some(s);
                roots = Some(r);
                since_new = 0;
            }
            "rehash" => {
                if !completed {
                    return Err(Fail::new("HARNESS|bad-phase-order", "rehash after a partial interval"));
                }
                let prev = roots.take().unwrap();
                let r = Roots {
                    r1: shift_roots(primes, &prev.r1, interval),
                    r2: shift_roots(primes, &prev.r2, interval),
                };
                let s = sieve.as_mut().unwrap();
                guard("Sieve::rehash", || s.rehash([&r.r1[..], &r.r2[..]]))?;
                roots = Some(r);
            }
            _ => return Err(Fail::new("HARNESS|bad-phase-kind", kind.to_string())),
        }
        l.label(&format!("phase:{}", kind));
        if nb < nblocks {
            l.label("phase:partial-interval");
        }
        completed = nb == nblocks;
        let r = roots.as_ref().unwrap();
        let s = sieve.as_mut().unwrap();
        match drv.run_blocks(l, s, pi, kind, &r.r1, &r.r2, nb, &mut since_new)? {
            Outcome::Done => {}
            Outcome::Unrealistic => {
                l.label("excluded:more-than-200-bits-of-base-primes-at-one-position");
                return Ok(());
            }
        }
    }
    l.sample(&format!("nblocks={:02}", nblocks), || serde_json::to_value(c).unwrap());
    Ok(())
}

// ---------------------------------------------------------------------------
// Real root tables: classical quadratic sieve (forward direction)

pub fn check_qs(c: &QsCase, l: &mut Local) -> Result<(), Fail> {
    let ni = parse_n(&c.n)?;
    if ni.is_negative() || ni.bits() < 40 || ni.bits() > 250 || c.size < 8 || c.size > 120_000 {
        return Err(Fail::new("HARNESS|out-of-domain", "qs: n of 40..250 bits, size 8..=120000"));
    }
    l.label("cases:qs");
    let fb = fbase_for(&c.n, c.size)?;
    let fb: &FBase = &fb;
    let primes = &fb.primes;
    let len = primes.len();
    // a base prime >= 2^14 dividing n has a single root: outside the callers' domain (DESIGN S3)
    if primes.iter().zip(&fb.sqrts).any(|(&p, &r)| p >= 1 << 14 && r == 0) {
        l.label("excluded:large-base-prime-divides-n");
        return Ok(());
    }
    fb_labels(l, fb);
    let n = ni.unsigned_abs();
    let qs = guard("SieveQS::new", || SieveQS::new(n, fb, 1 << 30, false))?;
    let (mut s, [r1, r2]) = guard("SieveQS::init_sieve_for_test", || qs.init_sieve_for_test())?;
    let nblocks = s.nblocks;
    if nblocks == 0 {
        return Err(Fail::new("HARNESS|out-of-domain", "qs: zero blocks"));
    }
    l.label(&format!("qs:nblocks={:02}", nblocks));
    let maxprime = primes[len - 1] as u64;
    let drv = Driver {
        sh: Shared {
            fb,
            entry: "Sieve::smooths",
            case_key: hash64(&serde_json::to_string(c).unwrap_or_default()),
            nblocks,
            maxlarge: maxprime * 100,
            xseed: c.xseed,
        },
        reports: c.reports.max(1),
        thr: 0,
        root: None,
        pad: 0,
    };
    let interval = (nblocks * BLOCK) as u64;
    let mut since_new = 0u64;
    let (mut r1, mut r2) = (r1, r2);
    for step in 0..=(c.rehashes as usize).min(4) {
        let kind = if step == 0 { "fresh" } else { "rehash" };
        if step > 0 {
            r1 = shift_roots(primes, &r1, interval);
            r2 = shift_roots(primes, &r2, interval);
            guard("Sieve::rehash", || s.rehash([&r1[..], &r2[..]]))?;
        }
        l.label(&format!("qs:phase:{}", kind));
        match drv.run_blocks(l, &mut s, step, kind, &r1, &r2, nblocks, &mut since_new)? {
            Outcome::Done => {}
            Outcome::Unrealistic => {
                l.label("excluded:more-than-200-bits-of-base-primes-at-one-position");
                return Ok(());
            }
        }
    }
    l.sample("qs", || serde_json::to_value(c).unwrap());
    Ok(())
}

// ---------------------------------------------------------------------------
// Strategies

fn cluster_strategy() -> impl Strategy<Value = Cluster> {
    (
        // (components that only select WHERE things happen are not shrunk: every shrink step
        // re-evaluates a whole sieve, and they do not make a failing case simpler)
        prop_oneof![3 => Just(16u8), 3 => Just(17u8), 3 => Just(18u8), 2 => 19u8..=21].no_shrink(),
        any::<u8>().no_shrink(),
        (0u16..32768).no_shrink(),
        prop_oneof![2 => 1u16..=8, 3 => 9u16..=256, 1 => 257u16..=16384].no_shrink(),
        prop_oneof![3 => 30u16..=44, 2 => 45u16..=64, 4 => 65u16..=80, 1 => 81u16..=220, 1 => 1000u16..=1400],
        (0u8..3).no_shrink(),
    )
        .prop_map(|(class, block, off, width, hits, pick)| Cluster {
            class,
            block,
            off,
            width,
            hits,
            pick,
        })
}

fn phase_strategy() -> impl Strategy<Value = Phase> {
    (
        prop_oneof![Just("recycled"), Just("rehash")],
        any::<u64>().no_shrink(),
        prop_oneof![3 => Just(0u8), 2 => 1u8..=3, 1 => 4u8..=12],
        prop_oneof![12 => Just(0u8), 1 => 1u8..=3],
        0u8..=3,
        proptest::collection::vec(cluster_strategy(), 0..=2),
        prop_oneof![4 => Just(0u8), 1 => 1u8..=8],
    )
        .prop_map(|(kind, seed, singles, singles_hi, edges, clusters, stop_after)| Phase {
            kind: kind.to_string(),
            seed,
            singles,
            singles_hi,
            edges,
            clusters,
            stop_after,
        })
}

pub fn strategy(thorough: bool) -> impl Strategy<Value = SieveCase> {
    let pool = moduli(thorough);
    let msz = max_size(thorough);
    (
        (any::<u16>(), any::<u16>(), prop_oneof![5 => Just(true), 2 => Just(false)], 0u32..=1000),
        if thorough {
            prop_oneof![12 => Just(1u8), 12 => Just(2u8), 8 => Just(3u8), 8 => Just(8u8), 4 => Just(20u8), 4 => 4u8..=16, 1 => Just(48u8), 1 => Just(64u8)]
                .boxed()
        } else {
            prop_oneof![3 => Just(1u8), 3 => Just(2u8), 2 => Just(3u8), 2 => Just(8u8), 1 => Just(20u8), 1 => 4u8..=16].boxed()
        },
        proptest::collection::vec(phase_strategy(), 1..=3),
        prop_oneof![2 => Just(1u32), 3 => Just(10u32), 7 => Just(60u32), 4 => Just(400u32), 1 => Just(3000u32), 1 => Just(0u32)],
        prop_oneof![4 => 1u8..=255, 1 => Just(255u8), 1 => 1u8..=30].no_shrink(),
        prop_oneof![Just(None), (0u32..=(1 << 20)).prop_map(Some)].no_shrink(),
        prop_oneof![3 => Just(0u8), 1 => Just(8u8)],
        prop_oneof![Just(1u32), Just(2u32), Just(50u32), Just(256u32)].no_shrink(),
        any::<u64>().no_shrink(),
    )
        .prop_map(move |((nsel, ssel, boundary, t), nblocks, mut phases, reports, thr, root, pad, maxlarge_mul, xseed)| {
            let n = pool[pick_idx(nsel, pool.len())].clone();
            let size = if boundary {
                let b = boundary_sizes(&n, thorough);
                b[pick_idx(ssel, b.len())]
            } else {
                // log-uniform in 8..=msz
                let f = (msz as f64 / 8.0).powf(t as f64 / 1000.0);
                ((8.0 * f) as u32).clamp(8, msz)
            };
            phases[0].kind = "fresh".to_string();
            // a raw threshold may report most of the block: keep that to short intervals
            let reports = if reports == 0 && (nblocks > 3 || phases.len() > 2) { 3000 } else { reports };
            // a partial interval cannot be followed by a rehash: enforced in `check` by ignoring stop_after
            let root = root.map(|r| r % ((nblocks as u32 * BLOCK_SIZE as u32) / 2 + 1));
            SieveCase {
                n,
                size,
                nblocks,
                phases,
                reports,
                thr,
                root,
                pad,
                maxlarge_mul,
                xseed,
            }
        })
}

pub fn qs_strategy() -> impl Strategy<Value = QsCase> {
    (
        40u32..=250,
        any::<u64>().no_shrink(),
        0u32..=1000,
        prop_oneof![Just(10u32), Just(100u32), Just(1000u32)],
        0u8..=2,
        any::<u64>().no_shrink(),
        (0u8..4).no_shrink(),
    )
        .prop_map(|(bits, seed, t, reports, rehashes, xseed, m8)| {
            let mut r = SplitMix(seed);
            let mut n: U1024 = r.bits::<16>(bits) | (U1024::ONE << (bits - 1)) | U1024::ONE;
            // n mod 8 decides "only odds" mode (1 mod 8): force each class regularly
            if m8 == 0 {
                n = (n & !U1024::from(7u64)) | U1024::ONE;
            }
            let f = (8000f64 / 8.0).powf(t as f64 / 1000.0);
            QsCase {
                n: n.to_string(),
                size: ((8.0 * f) as u32).clamp(8, 8000),
                reports,
                rehashes,
                xseed,
            }
        })
}

// ---------------------------------------------------------------------------
// Fixed part

fn fixed_cases(thorough: bool) -> Vec<SieveCase> {
    let mut out = vec![];
    let pool = moduli(false);
    let grid = [1u8, 2, 3, 8, 20];
    let mut k = 0usize;
    for n in pool.iter().take(if thorough { 3 } else { 2 }) {
        for &size in boundary_sizes(n, thorough).iter() {
            let nblocks = grid[k % grid.len()];
            k += 1;
            let ph = |kind: &str, seed: u64, clusters: Vec<Cluster>| Phase {
                kind: kind.to_string(),
                seed,
                singles: 2,
                singles_hi: 0,
                edges: 2,
                clusters,
                stop_after: 0,
            };
            let cl = |class: u8, hits: u16| Cluster {
                class,
                block: 200,
                off: 4096 + 256 * class as u16,
                width: 40,
                hits,
                pick: (hits % 3) as u8,
            };
            out.push(SieveCase {
                n: n.clone(),
                size,
                nblocks,
                phases: vec![
                    ph("fresh", 1000 + k as u64, vec![cl(16, 40), cl(18, 90)]),
                    ph("rehash", 0, vec![]),
                    ph(
                        "recycled",
                        2000 + k as u64,
                        if size >= 13000 {
                            // more than 1024 hits of very large primes in one 16384-wide bucket
                            vec![
                                cl(17, 44),
                                Cluster {
                                    class: 19,
                                    block: 0,
                                    off: 16384,
                                    width: 16384,
                                    hits: 1350,
                                    pick: 1,
                                },
                            ]
                        } else {
                            vec![cl(17, 44), cl(19, 60)]
                        },
                    ),
                ],
                reports: 400,
                thr: 0,
                root: if k % 2 == 0 { None } else { Some(5000) },
                pad: 0,
                maxlarge_mul: 50,
                xseed: k as u64,
            });
        }
    }
    out
}

/// A base with more than 65536 primes (prime indices no longer fit the 16 bits kept by the
/// very-large-prime tables): the random part of the quick tier stops below, so one explicit
/// case keeps the index walk of `smooths` covered there.
fn fixed_case_wide_index() -> SieveCase {
    SieveCase {
        n: MODULI[0].to_string(),
        size: 76_000,
        nblocks: 2,
        phases: vec![
            Phase {
                kind: "fresh".into(),
                seed: 4242,
                singles: 1,
                singles_hi: 0,
                edges: 1,
                clusters: vec![Cluster {
                    class: 21,
                    block: 255,
                    off: 300,
                    width: 250,
                    hits: 1400,
                    pick: 0,
                }],
                stop_after: 0,
            },
            Phase {
                kind: "recycled".into(),
                seed: 4243,
                singles: 0,
                singles_hi: 0,
                edges: 1,
                clusters: vec![Cluster {
                    class: 21,
                    block: 0,
                    off: 20000,
                    width: 300,
                    hits: 1400,
                    pick: 1,
                }],
                stop_after: 0,
            },
        ],
        reports: 400,
        thr: 0,
        root: None,
        pad: 0,
        maxlarge_mul: 50,
        xseed: 9,
    }
}

/// single-root primes in [2^14, 2^15): opt profile only (see `check`)
fn fixed_cases_opt_only() -> Vec<SieveCase> {
    let mut out = vec![];
    let n = MODULI[0].to_string();
    for (k, &size) in [1900u32, 2566, 4000].iter().enumerate() {
        out.push(SieveCase {
            n: n.clone(),
            size,
            nblocks: [1u8, 3, 8][k],
            phases: vec![
                Phase {
                    kind: "fresh".into(),
                    seed: 77 + k as u64,
                    singles: 2,
                    singles_hi: 3,
                    edges: 1,
                    clusters: vec![],
                    stop_after: 0,
                },
                Phase {
                    kind: "rehash".into(),
                    seed: 0,
                    singles: 0,
                    singles_hi: 0,
                    edges: 0,
                    clusters: vec![],
                    stop_after: 0,
                },
            ],
            reports: 3000,
            thr: 0,
            root: None,
            pad: 0,
            maxlarge_mul: 2,
            xseed: 5,
        });
    }
    out
}

fn run(ctx: &Ctx) {
    let thorough = !ctx.quick();
    ctx.set_rule(
        "proptest strategy over (factor base = FBase::new(n, size) for a pool of moduli, sizes on both sides of every \
         prime-size class boundary 2^12..2^19 (2^21 thorough) and of the skipped-primes / 16-bit-index thresholds, or \
         log-uniform; nblocks in {1,2,3,8,20} or 4..16; 1..3 phases through ONE Sieve object: fresh, recycled (new \
         roots), rehash (roots shifted by one interval); synthetic root tables derived from a generated seed with \
         single-root primes, roots aimed at block/bucket boundaries, roots 0 and p-1, clusters of 30..1400 large primes \
         aimed at one bucket; threshold by report quota or raw 1..255; root hint None/Some; padded tables). Second \
         check: real QS root tables (init_sieve_for_test) for generated n of 40..250 bits. Oracle: divisors by \
         definition (position mod p in roots) + recomputed bucket occupancy; cofactor() on prod p^e * c. \
         Non-trivial = reported position with a divisor >= 2^15 or beyond the first block / first polynomial; distinct \
         by (case, phase, block, position).",
    );
    ctx.assume("root tables describe integer polynomial values below 2^256: at most 200 bits of base primes meet at one position (cases beyond are counted as excluded)");
    ctx.assume("primes >= 2^15 have two distinct roots (debug-asserted by Sieve::new); single-root primes in [2^14,2^15) are evaluated under the opt profile only (u16 overflow check in smooths under chk, DESIGN S3)");
    ctx.assume("threshold >= 1 (threshold 0 underflows `threshold2 - 1`; every caller passes n.bits()/2 + log(M) - log(cofactor bound) > 0)");
    ctx.assume("bnum 0.8 integer arithmetic and native u64/u128 arithmetic are correct");

    {
        use rayon::prelude::*;
        fixed_cases(thorough).par_iter().for_each(|c| {
            let mut l = Local::new();
            ctx.fixed_case("sieve", c, &mut l, check);
            ctx.merge(l);
        });
    }
    let mut l = Local::new();
    ctx.fixed_case("sieve", &fixed_case_wide_index(), &mut l, check);
    if !ctx.is_chk() {
        for c in fixed_cases_opt_only() {
            ctx.fixed_case("sieve", &c, &mut l, check);
        }
    }
    // the modulus and base of the repository's own test, real QS roots
    ctx.fixed_case(
        "qs",
        &QsCase {
            n: MODULI[0].to_string(),
            size: 2566,
            reports: 100,
            rehashes: 1,
            xseed: 1,
        },
        &mut l,
        check_qs,
    );
    ctx.merge(l);

    let cases = ctx.n(4000, 150_000);
    ctx.par_prop("sieve", 16, cases, move || strategy(thorough), check);
    let qcases = ctx.n(400, 12_000);
    ctx.par_prop("qs", 8, qcases, qs_strategy, check_qs);

    for (e, min) in [
        ("reports", 1000),
        ("report:prime>=2^15", 50),
        ("report:class16", 20),
        ("report:class17", 20),
        ("report:class18", 20),
        ("report:class>=19", 10),
        ("report:log15-second-hit", 5),
        ("report:single-root-prime", 5),
        ("report:prime-found-in-overflowing-bucket", 5),
        ("overflow:kept-in-spare-slots", 5),
        ("overflow:beyond-spare-slots", 5),
        ("phase:recycled", 20),
        ("phase:rehash", 20),
        ("nblocks=20", 3),
        ("blocks:after-the-first", 100),
        ("cofactor:checked", 500),
        ("cofactor:c>1", 100),
        ("qs:phase:rehash", 3),
        ("report:prime-index>=65536", 5),
    ] {
        ctx.essential(e, min);
    }
    let _ = json!(null);
}

fn replay(_ctx: &Ctx, check_name: &str, case: &Value) -> Result<(), Fail> {
    match check_name {
        "sieve" => replay_as::<SieveCase>(case, check),
        "qs" => replay_as::<QsCase>(case, check_qs),
        _ => Err(Fail::new("HARNESS|unknown-check", check_name.to_string())),
    }
}
