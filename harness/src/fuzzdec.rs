//! Byte-level decoders for the libFuzzer targets (thorough tiers): the bytes are decoded by hand
//! into the same case structs the proptest side generates, so that the same oracle runs in-target
//! and a crash artifact converts into a normal replay file (`yqv <ID> --fuzz-artifact <target> <file>`).

use crate::oracle::int::U1024;
use crate::props::{c07, c09};

pub struct Reader<'a> {
    d: &'a [u8],
    i: usize,
}

impl<'a> Reader<'a> {
    pub fn new(d: &'a [u8]) -> Self {
        Reader { d, i: 0 }
    }
    pub fn u8(&mut self) -> Option<u8> {
        let v = *self.d.get(self.i)?;
        self.i += 1;
        Some(v)
    }
    pub fn u64(&mut self) -> u64 {
        // short reads are zero-extended so that small inputs decode to small values
        let mut v = 0u64;
        for k in 0..8 {
            if let Some(b) = self.d.get(self.i) {
                v |= (*b as u64) << (8 * k);
                self.i += 1;
            }
        }
        v
    }
    /// multiword integer: 1 length byte (words, <= max), then that many words; a pattern byte may
    /// replace words by 0 / all-ones to reach carry paths quickly
    pub fn big(&mut self, maxwords: usize) -> Option<U1024> {
        let n = (self.u8()? as usize) % (maxwords + 1);
        let pat = self.u8()?;
        let mut d = [0u64; 16];
        for (k, w) in d.iter_mut().enumerate().take(n) {
            *w = match (pat >> (2 * (k % 4))) & 3 {
                0 | 1 => self.u64(),
                2 => u64::MAX,
                _ => 0,
            };
        }
        Some(U1024::from_digits(d))
    }
    pub fn rest(&self) -> usize {
        self.d.len().saturating_sub(self.i)
    }
}

pub fn gcd_case(data: &[u8]) -> Option<c09::GcdCase> {
    let mut r = Reader::new(data);
    let words = match r.u8()? % 3 {
        0 => 16,
        1 => 8,
        _ => 4,
    };
    let mb = c09::maxbits(words);
    let clamp = |x: U1024| if x.bits() > mb { x >> (x.bits() - mb) } else { x };
    let a = clamp(r.big(words)?);
    let b = clamp(r.big(words)?);
    Some(c09::GcdCase { words, shape: "fuzz".into(), a, b })
}

pub enum MontCase {
    Ops(c07::OpsCase),
    Redc(c07::RedcCase),
    Mg64(c07::Mg64Case),
}

pub fn mont_case(data: &[u8]) -> Option<MontCase> {
    let mut r = Reader::new(data);
    let kind = r.u8()?;
    if kind % 4 == 3 {
        let n = (r.u64() | 1).max(3);
        let x = r.u64() % n;
        let y = r.u64() % n;
        let w = ((r.u64() as u128) << 64 | r.u64() as u128) % ((n as u128) << 64);
        return Some(MontCase::Mg64(c07::Mg64Case { n, x, y, wide: w }));
    }
    let n = r.big(8)? | U1024::ONE;
    let n = if n.bits() > 500 { n >> (n.bits() - 500) | U1024::ONE } else { n };
    if n < U1024::from(3u64) {
        return None;
    }
    if kind % 4 == 2 {
        let k = (n.bits() + 63) / 64;
        let x = r.big(16)?;
        let nr = n << (64 * k);
        let x = if x >= nr { x % nr } else { x };
        return Some(MontCase::Redc(c07::RedcCase { n, x }));
    }
    let nv = 2 + (r.u8()? % 3) as usize;
    let mut vals = vec![];
    for _ in 0..nv {
        vals.push(r.big(8)? % n);
    }
    let mut prog = vec![];
    while r.rest() >= 3 && prog.len() < 24 {
        prog.push((r.u8()? % 5, r.u8()?, r.u8()?));
    }
    Some(MontCase::Ops(c07::OpsCase { n, vals, prog }))
}
