//! Byte-level decoders for the libFuzzer targets (thorough tiers): the bytes are decoded by hand
//! into the same case structs the proptest side generates, so that the same oracle runs in-target
//! and a crash artifact converts into a normal replay file (`yqv <ID> --fuzz-artifact <target> <file>`).

use crate::oracle::int::U1024;
use crate::props::{c07, c09};

pub struct Reader<'a> {
    d: &'a [u8],
    i: usize,
}

impl<'a> Reader<'a> {
    pub fn new(d: &'a [u8]) -> Self {
        Reader { d, i: 0 }
    }
    pub fn u8(&mut self) -> Option<u8> {
        let v = *self.d.get(self.i)?;
        self.i += 1;
        Some(v)
    }
    pub fn u64(&mut self) -> u64 {
        // short reads are zero-extended so that small inputs decode to small values
        let mut v = 0u64;
        for k in 0..8 {
            if let Some(b) = self.d.get(self.i) {
                v |= (*b as u64) << (8 * k);
                self.i += 1;
            }
        }
        v
    }
    /// multiword integer: 1 length byte (words, <= max), then that many words; a pattern byte may
    /// replace words by 0 / all-ones to reach carry paths quickly
    pub fn big(&mut self, maxwords: usize) -> Option<U1024> {
        let n = (self.u8()? as usize) % (maxwords + 1);
        let pat = self.u8()?;
        let mut d = [0u64; 16];
        for (k, w) in d.iter_mut().enumerate().take(n) {
            *w = match (pat >> (2 * (k % 4))) & 3 {
                0 | 1 => self.u64(),
                2 => u64::MAX,
                _ => 0,
            };
        }
        Some(U1024::from_digits(d))
    }
    pub fn rest(&self) -> usize {
        self.d.len().saturating_sub(self.i)
    }
}

pub fn gcd_case(data: &[u8]) -> Option<c09::GcdCase> {
    let mut r = Reader::new(data);
    let words = match r.u8()? % 3 {
        0 => 16,
        1 => 8,
        _ => 4,
    };
    let mb = c09::maxbits(words);
    let clamp = |x: U1024| if x.bits() > mb { x >> (x.bits() - mb) } else { x };
    let a = clamp(r.big(words)?);
    let b = clamp(r.big(words)?);
    Some(c09::GcdCase { words, shape: "fuzz".into(), a, b })
}

pub enum MontCase {
    Ops(c07::OpsCase),
    Redc(c07::RedcCase),
    Mg64(c07::Mg64Case),
}

pub fn mont_case(data: &[u8]) -> Option<MontCase> {
    let mut r = Reader::new(data);
    let kind = r.u8()?;
    if kind % 4 == 3 {
        let n = (r.u64() | 1).max(3);
        let x = r.u64() % n;
        let y = r.u64() % n;
        let w = ((r.u64() as u128) << 64 | r.u64() as u128) % ((n as u128) << 64);
        return Some(MontCase::Mg64(c07::Mg64Case { n, x, y, wide: w }));
    }
    let n = r.big(8)? | U1024::ONE;
    let n = if n.bits() > 500 { n >> (n.bits() - 500) | U1024::ONE } else { n };
    if n < U1024::from(3u64) {
        return None;
    }
    if kind % 4 == 2 {
        let k = (n.bits() + 63) / 64;
        let x = r.big(16)?;
        let nr = n << (64 * k);
        let x = if x >= nr { x % nr } else { x };
        return Some(MontCase::Redc(c07::RedcCase { n, x }));
    }
    let nv = 2 + (r.u8()? % 3) as usize;
    let mut vals = vec![];
    for _ in 0..nv {
        vals.push(r.big(8)? % n);
    }
    let mut prog = vec![];
    while r.rest() >= 3 && prog.len() < 24 {
        prog.push((r.u8()? % 5, r.u8()?, r.u8()?));
    }
    Some(MontCase::Ops(c07::OpsCase { n, vals, prog }))
}

// ---------------------------------------------------------------------------
// Generic bridge: fuzzer bytes drive a property's own proptest strategy through proptest's
// PassThrough RNG (the bytes ARE the random stream), so that coverage-guided mutation of the
// bytes is structure-aware mutation of the generated case, and the artifact decodes to the
// same case struct the proptest side replays.

use crate::engine::{catch, Fail, Local};
use proptest::strategy::{Strategy, ValueTree};
use proptest::test_runner::{Config, RngAlgorithm, TestRng, TestRunner};
use serde_json::Value;

pub fn from_strategy<S: Strategy>(strat: &S, data: &[u8]) -> Option<S::Value> {
    // PassThrough yields zeros once the bytes are used up, and rand's rejection sampling never
    // terminates on an all-zero stream: append a fixed pseudo-random tail (a constant, not derived
    // from the input, so the mapping bytes -> case stays monotone in the input prefix).  Limit: every
    // RNG fork (prop_flat_map, prop_perturb, ...) halves the remaining stream, so strategies that fork per
    // element need a hand-written decoder instead (fz_rel histories).
    static TAIL: std::sync::OnceLock<Vec<u8>> = std::sync::OnceLock::new();
    let tail = TAIL.get_or_init(|| {
        let mut r = crate::oracle::int::SplitMix(0x7a11_7a11);
        (0..8192).flat_map(|_| r.next().to_le_bytes()).collect()
    });
    let mut buf = Vec::with_capacity(data.len() + tail.len());
    buf.extend_from_slice(data);
    buf.extend_from_slice(tail);
    let rng = TestRng::from_seed(RngAlgorithm::PassThrough, &buf);
    let mut runner = TestRunner::new_with_rng(Config { failure_persistence: None, ..Config::default() }, rng);
    strat.new_tree(&mut runner).ok().map(|t| t.current())
}

fn eval<C: serde::Serialize>(check: &'static str, c: Option<C>, f: impl FnOnce(&C, &mut Local) -> Result<(), Fail>) -> Option<(&'static str, Value, Result<(), Fail>)> {
    let c = c?;
    let mut l = Local::new();
    let r = match catch(|| f(&c, &mut l)) {
        Ok(r) => r,
        Err(p) => Err(Fail::new(format!("unguarded|panic@{}", p.short_loc()), p.msg)),
    };
    Some((check, serde_json::to_value(&c).unwrap_or(Value::Null), r))
}

/// Decode `data` for `target`, run the oracle: (check name, case, verdict).
pub fn fuzz_one(target: &str, data: &[u8]) -> Option<(&'static str, Value, Result<(), Fail>)> {
    use crate::props::*;
    let (sel, rest) = match data.split_first() {
        Some((s, r)) => (*s, r),
        None => return None,
    };
    match target {
        "fz_gcd" => eval("gcd", gcd_case(data), c09::check),
        "fz_mont" => match mont_case(data)? {
            MontCase::Ops(c) => eval("ops", Some(c), c07::check_ops),
            MontCase::Redc(c) => eval("redc", Some(c), c07::check_redc),
            MontCase::Mg64(c) => eval("mg64", Some(c), c07::check_mg64),
        },
        "fz_rel" => match sel % 8 {
            // histories: hand-written decoder (the strategy forks its RNG per element, see c11::history_from_bytes)
            0..=5 => eval("history", c11::history_from_bytes(rest), c11::check_history),
            6 => eval("combine", from_strategy(&c11::combine_strategy(), rest), c11::check_combine),
            _ => eval("pack", from_strategy(&c11::pack_strategy(), rest), c11::check_pack),
        },
        "fz_gauss" => eval("gauss", from_strategy(&c14::gauss_strategy(160, 190), rest), c14::check_gauss),
        "fz_poly" => match sel % 4 {
            0 => eval("poly", from_strategy(&c10::poly_strategy(48), rest), c10::check_poly),
            1 => eval("fint", from_strategy(&c10::fint_strategy(), rest), c10::check_fint),
            2 => eval("mzp", from_strategy(&c10::mzp_strategy(), rest), c10::check_mzp),
            _ => eval("fconv", from_strategy(&c10::fconv_strategy(), rest), c10::check_fconv),
        },
        "fz_curve" => match sel % 3 {
            0 => eval("law", from_strategy(&c15::law_strategy(), rest), c15::check_law),
            1 => eval("mul64", from_strategy(&c15::mul64_strategy(), rest), c15::check_mul64),
            _ => eval("mul1024", from_strategy(&c15::mul1024_strategy(), rest), c15::check_mul1024),
        },
        "fz_lin" => match sel % 4 {
            0 => eval("det", from_strategy(&c19::dense_strategy(), rest), c19::check_dense),
            1 => eval("snf", from_strategy(&c19::snf_strategy(), rest), c19::check_snf),
            2 => eval("bm", from_strategy(&c19::bm_strategy(), rest), c19::check_bm),
            _ => eval("lattice", from_strategy(&c19::lattice_strategy(), rest), c19::check_lattice),
        },
        _ => fuzz_one_late(target, sel, rest),
    }
}

/// Entry point of every libFuzzer target: panics (= crash artifact) on an oracle failure that is
/// neither a harness-domain rejection, nor a probe, nor a listed known finding.
pub fn run_target(target: &str, data: &[u8]) {
    static HOOK: std::sync::Once = std::sync::Once::new();
    // wrap libFuzzer's abort-on-panic hook: panics caught by the oracle (guard/catch) stay silent
    HOOK.call_once(|| {
        crate::engine::install_panic_hook();
        // in-target: no helper child processes (the C06 watchdog falls back to a thread)
        std::env::set_var("YQV_WD_THREAD", "1");
    });
    if let Some((check, _case, Err(f))) = fuzz_one(target, data) {
        if f.class.starts_with("HARNESS|") || f.class.starts_with("PROBE|") {
            return;
        }
        if known_sigs(target).iter().any(|k| *k == f.class || *k == f.sig()) {
            return;
        }
        panic!("YQV-FUZZ-VIOLATION check={} {} :: {}", check, f.sig(), f.what);
    }
}

/// property id a target belongs to
pub fn property_of(target: &str) -> &'static str {
    match target {
        "fz_gcd" => "C09",
        "fz_mont" => "C07",
        "fz_rel" => "C11",
        "fz_gauss" => "C14",
        "fz_poly" => "C10",
        "fz_curve" => "C15",
        "fz_lin" => "C19",
        "fz_div" => "C08",
        "fz_prime" => "C06",
        _ => "?",
    }
}

fn known_sigs(target: &str) -> Vec<String> {
    static CACHE: std::sync::Mutex<Option<Vec<crate::engine::KnownFinding>>> = std::sync::Mutex::new(None);
    let mut g = CACHE.lock().unwrap();
    let all = g.get_or_insert_with(|| {
        let root = std::path::PathBuf::from(std::env::var("YQV_ROOT").unwrap_or_else(|_| "/verif".into()));
        crate::engine::load_known_findings(&root)
    });
    let id = property_of(target);
    all.iter().filter(|k| k.property == id).map(|k| k.sig.clone()).collect()
}

/// targets whose modules were merged later
fn fuzz_one_late(target: &str, sel: u8, rest: &[u8]) -> Option<(&'static str, Value, Result<(), Fail>)> {
    use crate::props::*;
    match target {
        "fz_div" => match sel % 8 {
            0 | 1 => eval("div", from_strategy(&c08::div_strategy(), rest), c08::check_div),
            2 => eval("inverter", from_strategy(&c08::inverter_strategy(), rest), c08::check_inverter),
            3 => eval("inv_mod64", from_strategy(&c08::inv64_strategy(), rest), c08::check_inv64),
            4 => eval("sqrt_mod", from_strategy(&c08::sqrt_strategy(), rest), c08::check_sqrt),
            5 => eval("pow_mod", from_strategy(&c08::pow_strategy(), rest), c08::check_pow),
            6 => eval("isqrt", from_strategy(&c08::isqrt_strategy(), rest), c08::check_isqrt),
            _ => eval("perfect_power", from_strategy(&c08::pp_strategy(), rest), c08::check_pp),
        },
        "fz_prime" => match sel % 2 {
            0 => eval("isprime64", from_strategy(&c06::p64_strategy(), rest), c06::check_p64),
            _ => eval("pseudoprime", from_strategy(&c06::big_strategy(), rest), c06::check_big),
        },
        _ => None,
    }
}
