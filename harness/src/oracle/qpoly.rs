//! Reference arithmetic for sieving polynomials (DESIGN.md C12).
//!
//! Everything here works from first principles: residues of multiword integers modulo a
//! word-sized prime by Horner's rule on the 64-bit limbs (native `u128 %`), evaluation of a
//! quadratic modulo p in `u64`, brute-force root sets, the root count of a quadratic from
//! the Jacobi symbol, and exact evaluation in a 1024-bit signed bnum integer.  No yamaquasi
//! code is used.

use bnum::cast::CastFrom;
use bnum::{BInt, BUint};

use crate::oracle::int::jacobi64;

/// Wide signed type for exact identities (all values stay below 2^900).
pub type W = BInt<16>;

pub fn w_from_u<const N: usize>(x: &BUint<N>) -> W {
    W::cast_from(*x)
}

pub fn w_from_i<const N: usize>(x: &BInt<N>) -> W {
    let m = W::cast_from(x.unsigned_abs());
    if x.is_negative() {
        -m
    } else {
        m
    }
}

/// `limbs` (little endian) modulo p, Horner's rule with u128 remainders.
pub fn mod_limbs(limbs: &[u64], p: u64) -> u64 {
    let mut r: u64 = 0;
    for &l in limbs.iter().rev() {
        r = ((((r as u128) << 64) | l as u128) % p as u128) as u64;
    }
    r
}

pub fn mod_uint<const N: usize>(x: &BUint<N>, p: u64) -> u64 {
    let used = ((x.bits() as usize) + 63) / 64;
    mod_limbs(&x.digits()[..used], p)
}

/// Residue in [0, p) of a signed multiword integer.
pub fn mod_int<const N: usize>(x: &BInt<N>, p: u64) -> u64 {
    let m = mod_uint(&x.unsigned_abs(), p);
    if x.is_negative() && m != 0 {
        p - m
    } else {
        m
    }
}

/// Residue of a signed 64-bit integer in [0, p).
pub fn mod_i64(x: i64, p: u64) -> u64 {
    (x as i128).rem_euclid(p as i128) as u64
}

/// Per-prime constants for fast reduction of 256-bit values: 2^64, 2^128, 2^192 mod p.
/// Requires p < 2^31.
#[derive(Clone, Copy, Debug)]
pub struct PCtx {
    pub p: u64,
    w: [u64; 3],
}

impl PCtx {
    pub fn new(p: u64) -> PCtx {
        assert!(p >= 2 && p < (1 << 31));
        let w1 = ((1u128 << 64) % p as u128) as u64;
        let w2 = (w1 * w1) % p;
        let w3 = (w2 * w1) % p;
        PCtx { p, w: [w1, w2, w3] }
    }

    /// |x| < 2^256 given by four limbs, modulo p.
    #[inline]
    pub fn mod4(&self, d: &[u64; 4]) -> u64 {
        let p = self.p;
        // each term < 2^31 * 2^31 = 2^62; the sum of four stays below 2^64
        let s = (d[0] % p) + (d[1] % p) * self.w[0] % p + (d[2] % p) * self.w[1] % p + (d[3] % p) * self.w[2] % p;
        s % p
    }

    #[inline]
    pub fn mod_i256(&self, neg: bool, d: &[u64; 4]) -> u64 {
        let m = self.mod4(d);
        if neg && m != 0 {
            self.p - m
        } else {
            m
        }
    }
}

/// (is_negative, |x| limbs) of a 256-bit signed integer.
pub fn split_i256(x: &BInt<4>) -> (bool, [u64; 4]) {
    (x.is_negative(), *x.unsigned_abs().digits())
}

/// (a x^2 + b x + c) mod p, all inputs already reduced (< p < 2^31).
#[inline]
pub fn quad_mod(a: u64, b: u64, c: u64, x: u64, p: u64) -> u64 {
    (((a * x + b) % p) * x + c) % p
}

/// All residues x in [0, p) with a (o+x)^2 + b (o+x) + c = 0 (mod p), by trying every residue.
pub fn brute_roots(a: u64, b: u64, c: u64, o: u64, p: u64) -> Vec<u64> {
    let mut out = vec![];
    for x in 0..p {
        let t = (o + x) % p;
        if quad_mod(a, b, c, t, p) == 0 {
            out.push(x);
        }
    }
    out
}

/// Number of roots modulo an odd prime p of a quadratic with leading coefficient `a`,
/// linear coefficient `b` (both reduced) and discriminant `disc` (reduced), when the
/// polynomial is not identically zero mod p.  `None` if it vanishes identically.
pub fn root_count(a: u64, b: u64, c: u64, disc: u64, p: u64) -> Option<u32> {
    debug_assert!(p > 2);
    if a % p == 0 {
        if b % p == 0 {
            if c % p == 0 {
                None
            } else {
                Some(0)
            }
        } else {
            Some(1)
        }
    } else {
        Some((1 + jacobi64(disc % p, p)) as u32)
    }
}

/// Compare a two-entry root table with a root set: the entries must be exactly the set.
pub fn same_set(r1: u64, r2: u64, set: &[u64]) -> bool {
    let mut t = vec![r1, r2];
    t.sort();
    t.dedup();
    t.as_slice() == set
}

#[cfg(test)]
mod tests {
    use super::*;
    #[test]
    fn limbs() {
        let x = BUint::<4>::from_digits([u64::MAX, 12345, 0, 99]);
        for p in [2u64, 3, 65537, 16777213, (1 << 31) - 1] {
            let want = (x % BUint::<4>::from(p)).digits()[0];
            assert_eq!(mod_uint(&x, p), want);
            assert_eq!(PCtx::new(p).mod4(x.digits()), want);
        }
    }
}

/// Primality below 2^24 from an odd-only sieve of Eratosthenes built once (independent of the
/// library's prime generation).
pub fn is_prime_24(p: u64) -> bool {
    static SIEVE: std::sync::OnceLock<Vec<u64>> = std::sync::OnceLock::new();
    const LIMIT: usize = 1 << 24;
    let bits = SIEVE.get_or_init(|| {
        // bit i set <=> 2i+1 is composite
        let half = LIMIT / 2;
        let mut comp = vec![0u64; half / 64 + 1];
        let mut i = 1usize;
        while (2 * i + 1) * (2 * i + 1) < LIMIT {
            if comp[i / 64] >> (i % 64) & 1 == 0 {
                let p = 2 * i + 1;
                let mut j = (p * p - 1) / 2;
                while j < half {
                    comp[j / 64] |= 1 << (j % 64);
                    j += p;
                }
            }
            i += 1;
        }
        comp
    });
    if p < 2 || p >= LIMIT as u64 {
        return false;
    }
    if p == 2 {
        return true;
    }
    if p % 2 == 0 {
        return false;
    }
    let i = (p / 2) as usize;
    bits[i / 64] >> (i % 64) & 1 == 0
}
