//! Reference prime tables and the exponent-block oracle of C17 (DESIGN.md section 2, C17).
//!
//! Nothing here calls yamaquasi.  Primes come from `oracle::int::ref_sieve` (odd-only
//! Eratosthenes); block factorisation uses plain u128 limb arithmetic.

use std::sync::{Arc, Mutex};

use super::int::{ref_sieve, U1024};

static CACHE: Mutex<Option<(u64, Arc<Vec<u32>>)>> = Mutex::new(None);

/// Exactly the primes < `limit` (a copy; use for short lists).
pub fn primes_below(limit: u64) -> Vec<u32> {
    let all = ref_primes(limit);
    let n = all.partition_point(|&p| (p as u64) < limit);
    all[..n].to_vec()
}

/// An increasing table of primes that contains AT LEAST all primes < `limit` (limit <= 2^32) —
/// usually more: the table is cached per process and only grows.  Callers cut it with
/// `partition_point` (or use `primes_below`).
pub fn ref_primes(limit: u64) -> Arc<Vec<u32>> {
    let mut g = CACHE.lock().unwrap();
    if let Some((l, v)) = g.as_ref() {
        if *l >= limit {
            return v.clone();
        }
    }
    // round up so that neighbouring requests share one sieve
    let lim = ((limit + (1 << 20)) >> 20) << 20;
    let v = Arc::new(ref_sieve(lim.min(1 << 32)));
    *g = Some((lim, v.clone()));
    v
}

/// An exponent block: a positive integer that is divided by small primes.
pub trait Block: Clone {
    fn rem_small(&self, q: u64) -> u64;
    /// exact division by q (caller checked divisibility)
    fn div_small(&self, q: u64) -> Self;
    fn is_one(&self) -> bool;
    fn is_zero(&self) -> bool;
    fn show(&self) -> String;
}

impl Block for u64 {
    fn rem_small(&self, q: u64) -> u64 {
        self % q
    }
    fn div_small(&self, q: u64) -> u64 {
        self / q
    }
    fn is_one(&self) -> bool {
        *self == 1
    }
    fn is_zero(&self) -> bool {
        *self == 0
    }
    fn show(&self) -> String {
        self.to_string()
    }
}

impl Block for U1024 {
    fn rem_small(&self, q: u64) -> u64 {
        let mut r: u128 = 0;
        for &d in self.digits().iter().rev() {
            r = ((r << 64) | d as u128) % q as u128;
        }
        r as u64
    }
    fn div_small(&self, q: u64) -> U1024 {
        let mut out = [0u64; 16];
        let mut r: u128 = 0;
        for (i, &d) in self.digits().iter().enumerate().rev() {
            let cur = (r << 64) | d as u128;
            out[i] = (cur / q as u128) as u64;
            r = cur % q as u128;
        }
        U1024::from_digits(out)
    }
    fn is_one(&self) -> bool {
        *self == U1024::ONE
    }
    fn is_zero(&self) -> bool {
        *self == U1024::ZERO
    }
    fn show(&self) -> String {
        self.to_string()
    }
}

/// Largest e with q^e < bound (0 if q >= bound).
pub fn max_exponent_below(q: u64, bound: u64) -> u32 {
    let mut e = 0;
    let mut pw: u128 = 1;
    while pw * (q as u128) < bound as u128 {
        pw *= q as u128;
        e += 1;
    }
    e
}

#[derive(Debug, Default, Clone)]
pub struct BlockReport {
    pub blocks: usize,
    /// blocks that are not a product of reference primes below the factoring limit
    pub foreign: usize,
    pub zero_blocks: usize,
    /// number of primes below the bound
    pub primes_checked: usize,
    /// (prime, required exponent, exponent found) — confirmed against every block
    pub missing: Vec<(u64, u32, u32)>,
    /// candidates that could not be confirmed or refuted within the work budget
    pub undecided: usize,
    /// total valuation found beyond the requirement, for 2 and 3 (documented extras of SmoothBase)
    pub extra2: u32,
    pub extra3: u32,
}

/// Decide "the product of `blocks` is divisible by q^e for every prime power q^e < bound".
///
/// Sound in both directions within the budget: a prime power is reported missing only after
/// its valuation has been counted over *every* block (fully factored blocks contribute their
/// complete factorisation, the unfactored cofactors of the others are divided directly).
/// The monotone pointer is only a speed hint: blocks that the hint does not resolve are
/// factored by complete trial division while the budget lasts.
pub fn check_blocks<B: Block>(blocks: &[B], bound: u64, primes: &[u32], budget: u64) -> BlockReport {
    // primes used for factoring: everything below bound plus a margin (a builder may
    // include the first primes >= bound; they are irrelevant to the property)
    let nb = primes.partition_point(|&p| (p as u64) < bound);
    let nfac = (nb + 16).min(primes.len());
    let mut have = vec![0u32; nfac];
    let mut rep = BlockReport {
        blocks: blocks.len(),
        primes_checked: nb,
        ..Default::default()
    };
    let mut work: u64 = 0;
    let mut ptr = 0usize; // hint: index of the smallest prime not yet seen
    let mut cofactors: Vec<B> = vec![];
    const WINDOW: usize = 48;
    for b in blocks {
        if b.is_zero() {
            rep.zero_blocks += 1;
            continue;
        }
        let mut rem = b.clone();
        // 1. hint: consecutive primes starting at the pointer
        let mut i = ptr;
        let mut misses = 0;
        while !rem.is_one() && i < nfac && misses < WINDOW {
            let q = primes[i] as u64;
            let mut hit = false;
            while rem.rem_small(q) == 0 {
                rem = rem.div_small(q);
                have[i] += 1;
                hit = true;
            }
            if hit {
                misses = 0;
                ptr = ptr.max(i + 1);
            } else {
                misses += 1;
            }
            i += 1;
        }
        // 2. complete trial division when the hint did not resolve the block
        if !rem.is_one() && work < budget {
            for (j, &q) in primes[..nfac].iter().enumerate() {
                let q = q as u64;
                work += 1;
                while rem.rem_small(q) == 0 {
                    rem = rem.div_small(q);
                    have[j] += 1;
                }
                if rem.is_one() {
                    break;
                }
            }
        }
        if !rem.is_one() {
            rep.foreign += 1;
            cofactors.push(rem);
        }
    }
    // 3. candidates: confirm against the unfactored cofactors
    for j in 0..nb {
        let q = primes[j] as u64;
        let need = max_exponent_below(q, bound);
        if have[j] >= need {
            continue;
        }
        if work >= 4 * budget && !rep.missing.is_empty() {
            // enough confirmed evidence; do not spend unbounded time on the rest
            rep.undecided += 1;
            continue;
        }
        if work >= 16 * budget {
            rep.undecided += 1;
            continue;
        }
        let mut v = have[j];
        for c in cofactors.iter_mut() {
            work += 1;
            while c.rem_small(q) == 0 {
                *c = c.div_small(q);
                v += 1;
            }
        }
        have[j] = v;
        if v < need && rep.missing.len() < 64 {
            rep.missing.push((q, need, v));
        }
    }
    if nb > 0 {
        rep.extra2 = have[0].saturating_sub(max_exponent_below(2, bound));
    }
    if nb > 1 {
        rep.extra3 = have[1].saturating_sub(max_exponent_below(3, bound));
    }
    rep
}

#[cfg(test)]
mod tests {
    use super::*;

    #[test]
    fn small_division() {
        let x = U1024::from(1_000_003u64) * U1024::from(999_983u64) << 700u32;
        assert_eq!(x.rem_small(999_983), 0);
        assert_eq!(x.div_small(999_983), U1024::from(1_000_003u64) << 700u32);
        assert_eq!(x.rem_small(7), (x % U1024::from(7u64)).digits()[0]);
    }

    #[test]
    fn blocks() {
        let pr = ref_primes(1000);
        // 2^6*3^4*5^2*7^2 covers prime powers < 100 for 2,3,5,7
        let good: Vec<u64> = vec![64 * 81 * 25 * 49, 11 * 13 * 17 * 19, 23 * 29 * 31 * 37, 41 * 43 * 47 * 53, 59 * 61 * 67 * 71, 73 * 79 * 83 * 89, 97];
        let r = check_blocks(&good, 100, &pr, 1 << 20);
        assert!(r.missing.is_empty(), "{:?}", r);
        let mut bad = good.clone();
        bad[2] = 23 * 29 * 37;
        let r = check_blocks(&bad, 100, &pr, 1 << 20);
        assert_eq!(r.missing, vec![(31, 1, 0)]);
        // out-of-order blocks are still decided correctly
        let mut perm = good.clone();
        perm.reverse();
        let r = check_blocks(&perm, 100, &pr, 1 << 20);
        assert!(r.missing.is_empty(), "{:?}", r);
    }
}
