//! Linear-algebra reference kit (DESIGN.md section 1.7).
//!
//! GF(2): bit matrices as `Vec<u64>` rows, product and rank by plain Gaussian elimination.
//! Z: determinant by fraction-free Bareiss over wide bnum integers, and by Gaussian
//! elimination modulo several 61-bit primes (`u128 %` arithmetic, no Montgomery form) +
//! incremental CRT up to a Hadamard-type bound; Smith normal form by the textbook gcd
//! algorithm (smallest-pivot strategy, overflow guarded); invariant factors of a finite
//! abelian group given by cyclic orders; Berlekamp–Massey (Massey's textbook version) over
//! GF(p); Krylov ranks (used only to *classify* inputs, never to produce expected values).
//!
//! Nothing here calls into yamaquasi.

use bnum::cast::CastFrom;
use bnum::{BInt, BUint};

use super::int::{gcd128, ref_isprime64};

// ---------------------------------------------------------------------------
// GF(2)

/// Dense bit matrix, row major: `rows[i]` holds `ncols` bits (bit j of the row = word j/64, bit j%64).
#[derive(Clone, Debug)]
pub struct BitMat {
    pub nrows: usize,
    pub ncols: usize,
    pub rows: Vec<Vec<u64>>,
}

#[inline]
pub fn words(nbits: usize) -> usize {
    (nbits + 63) / 64
}

#[inline]
pub fn get_bit(v: &[u64], i: usize) -> bool {
    (v[i / 64] >> (i % 64)) & 1 == 1
}

#[inline]
pub fn flip_bit(v: &mut [u64], i: usize) {
    v[i / 64] ^= 1u64 << (i % 64);
}

pub fn is_zero_bits(v: &[u64]) -> bool {
    v.iter().all(|&w| w == 0)
}

pub fn bits_from_indices(idx: &[usize], nbits: usize) -> Vec<u64> {
    let mut v = vec![0u64; words(nbits)];
    for &i in idx {
        assert!(i < nbits);
        // xor: an index listed twice cancels (GF(2) semantics)
        flip_bit(&mut v, i);
    }
    v
}

impl BitMat {
    /// Matrix whose j-th column has ones exactly at the row indices `cols[j]`
    /// (an index listed twice in a column cancels).
    pub fn from_columns(nrows: usize, cols: &[Vec<usize>]) -> BitMat {
        let ncols = cols.len();
        let mut rows = vec![vec![0u64; words(ncols)]; nrows];
        for (j, c) in cols.iter().enumerate() {
            for &i in c {
                assert!(i < nrows);
                flip_bit(&mut rows[i], j);
            }
        }
        BitMat { nrows, ncols, rows }
    }

    /// Matrix with the given row vectors (each `ncols` bits).
    pub fn from_rows(ncols: usize, rows: Vec<Vec<u64>>) -> BitMat {
        for r in &rows {
            assert_eq!(r.len(), words(ncols));
        }
        BitMat { nrows: rows.len(), ncols, rows }
    }

    /// M·v over GF(2); `v` has `ncols` bits, the result `nrows` bits.
    pub fn mul_vec(&self, v: &[u64]) -> Vec<u64> {
        assert_eq!(v.len(), words(self.ncols));
        let mut out = vec![0u64; words(self.nrows)];
        for (i, r) in self.rows.iter().enumerate() {
            let mut acc = 0u64;
            for (a, b) in r.iter().zip(v) {
                acc ^= a & b;
            }
            if acc.count_ones() & 1 == 1 {
                flip_bit(&mut out, i);
            }
        }
        out
    }

    /// Rank by plain Gaussian elimination (on a copy).
    pub fn rank(&self) -> usize {
        let mut rows = self.rows.clone();
        let mut rank = 0;
        for c in 0..self.ncols {
            let Some(piv) = (rank..rows.len()).find(|&i| get_bit(&rows[i], c)) else {
                continue;
            };
            rows.swap(rank, piv);
            let (head, tail) = rows.split_at_mut(rank + 1);
            let p = &head[rank];
            for r in tail.iter_mut() {
                if get_bit(r, c) {
                    for (a, b) in r.iter_mut().zip(p) {
                        *a ^= *b;
                    }
                }
            }
            rank += 1;
            if rank == rows.len() {
                break;
            }
        }
        rank
    }
}

/// M·v computed from the column lists only (memory-light variant for large sparse
/// matrices): xor of the columns selected by `v`.
pub fn gf2_mul_cols(nrows: usize, cols: &[Vec<usize>], v: &[u64]) -> Vec<u64> {
    let mut out = vec![0u64; words(nrows)];
    for (j, c) in cols.iter().enumerate() {
        if get_bit(v, j) {
            for &i in c {
                flip_bit(&mut out, i);
            }
        }
    }
    out
}

// ---------------------------------------------------------------------------
// Integers: wide type

/// 5120-bit signed integer: wide enough for CRT products above the 4032-bit cap of `det_matz`.
pub type W = BInt<80>;
pub type UW = BUint<80>;

pub fn w_from_i128(x: i128) -> W {
    let m = UW::from(x.unsigned_abs());
    let m = W::cast_from(m);
    if x < 0 {
        -m
    } else {
        m
    }
}

/// sign/magnitude conversion between signed widths
pub fn w_resize<const A: usize, const B: usize>(x: &BInt<A>) -> BInt<B> {
    let m = x.unsigned_abs();
    let mut d = [0u64; B];
    for (i, w) in m.digits().iter().enumerate() {
        if i < B {
            d[i] = *w;
        } else {
            assert_eq!(*w, 0, "w_resize: value does not fit");
        }
    }
    let r = BInt::<B>::cast_from(BUint::<B>::from_digits(d));
    if x.is_negative() {
        -r
    } else {
        r
    }
}

/// log2 |x| as f64 (relative error ~1e-16); None for 0.
pub fn log2_abs<const N: usize>(x: &BInt<N>) -> Option<f64> {
    let m = x.unsigned_abs();
    let b = m.bits();
    if b == 0 {
        return None;
    }
    if b <= 64 {
        return Some((m.digits()[0] as f64).log2());
    }
    let top = (m >> (b - 64)).digits()[0];
    Some((top as f64).log2() + (b - 64) as f64)
}

pub fn w_mod_u64<const N: usize>(x: &BInt<N>, p: u64) -> u64 {
    let m = x.unsigned_abs();
    let r = (m % BUint::<N>::from(p)).digits()[0];
    if x.is_negative() && r != 0 {
        p - r
    } else {
        r
    }
}

// ---------------------------------------------------------------------------
// Arithmetic mod p (p < 2^63), plain u128 %

#[inline]
pub fn mulp(a: u64, b: u64, p: u64) -> u64 {
    ((a as u128 * b as u128) % p as u128) as u64
}

#[inline]
pub fn subp(a: u64, b: u64, p: u64) -> u64 {
    if a >= b {
        a - b
    } else {
        a + (p - b)
    }
}

#[inline]
pub fn addp(a: u64, b: u64, p: u64) -> u64 {
    let s = a as u128 + b as u128;
    (if s >= p as u128 { s - p as u128 } else { s }) as u64
}

pub fn powp(mut b: u64, mut e: u64, p: u64) -> u64 {
    let mut r = 1 % p;
    b %= p;
    while e > 0 {
        if e & 1 == 1 {
            r = mulp(r, b, p);
        }
        b = mulp(b, b, p);
        e >>= 1;
    }
    r
}

/// inverse modulo a prime p (Fermat)
pub fn invp(a: u64, p: u64) -> u64 {
    debug_assert!(a % p != 0);
    powp(a, p - 2, p)
}

#[inline]
pub fn red_i64(x: i64, p: u64) -> u64 {
    (x as i128).rem_euclid(p as i128) as u64
}

/// The k-th prime below 2^61 in descending order (k = 0 is 2^61 - 1), by the kit's own
/// Miller–Rabin.  Cached by the caller if needed.
pub fn crt_primes(count: usize) -> Vec<u64> {
    let mut out = Vec::with_capacity(count);
    let mut p: u64 = (1u64 << 61) - 1;
    while out.len() < count {
        if ref_isprime64(p) {
            out.push(p);
        }
        p -= 2;
    }
    out
}

/// Determinant of a square matrix mod a prime p by Gaussian elimination with row pivoting.
pub fn det_mod_p(m: &[Vec<i64>], p: u64) -> u64 {
    let n = m.len();
    let mut a: Vec<Vec<u64>> = m
        .iter()
        .map(|r| {
            assert_eq!(r.len(), n, "det_mod_p: matrix not square");
            r.iter().map(|&x| red_i64(x, p)).collect()
        })
        .collect();
    det_mod_p_inplace(&mut a, p)
}

pub fn det_mod_p_inplace(a: &mut [Vec<u64>], p: u64) -> u64 {
    let n = a.len();
    let mut det = 1 % p;
    let mut neg = false;
    for c in 0..n {
        let Some(piv) = (c..n).find(|&i| a[i][c] != 0) else {
            return 0;
        };
        if piv != c {
            a.swap(piv, c);
            neg = !neg;
        }
        let d = a[c][c];
        det = mulp(det, d, p);
        let dinv = invp(d, p);
        let (head, tail) = a.split_at_mut(c + 1);
        let prow = &head[c];
        for r in tail.iter_mut() {
            if r[c] == 0 {
                continue;
            }
            let f = mulp(r[c], dinv, p);
            for j in c..n {
                if prow[j] != 0 {
                    r[j] = subp(r[j], mulp(f, prow[j], p), p);
                }
            }
        }
    }
    if neg && det != 0 {
        p - det
    } else {
        det
    }
}

/// Upper bound on log2 |det| (Hadamard, each row norm over-estimated by sqrt(n)*max|entry|);
/// None if some row is zero (det = 0).
pub fn hadamard_bits(m: &[Vec<i64>]) -> Option<u32> {
    let n = m.len() as u64;
    let half_log_n = (64 - n.leading_zeros() + 1) / 2 + 1;
    let mut bits = 0u32;
    for r in m {
        let mx = r.iter().map(|x| x.unsigned_abs()).max().unwrap_or(0);
        if mx == 0 {
            return None;
        }
        // row 2-norm <= sqrt(nnz) * mx
        let nnz = r.iter().filter(|&&x| x != 0).count() as u64;
        let hl = if nnz <= 1 { 0 } else { ((64 - nnz.leading_zeros() + 1) / 2 + 1).min(half_log_n) };
        bits += (64 - mx.leading_zeros()) + hl;
    }
    Some(bits)
}

/// Exact determinant by elimination mod 61-bit primes + incremental CRT (Garner) with the
/// Hadamard bound, symmetric lift.  Returns (det, number of primes used).
pub fn det_crt(m: &[Vec<i64>]) -> (W, usize) {
    let n = m.len();
    if n == 0 {
        return (W::ONE, 0);
    }
    let Some(hb) = hadamard_bits(m) else {
        return (W::ZERO, 0);
    };
    // need prod > 2*|det|: hb+2 bits; each prime contributes > 60.99 bits
    let k = ((hb as usize + 2) + 59) / 60;
    assert!(61 * k < 5000, "det_crt: determinant bound too large for the kit ({} bits)", hb);
    let primes = crt_primes(k);
    let mut x = UW::ZERO; // residue in [0, prod)
    let mut prod = UW::ONE;
    for &p in &primes {
        let r = det_mod_p(m, p);
        // x' = x + prod * ((r - x) / prod mod p)
        let xm = (x % UW::from(p)).digits()[0];
        let pm = (prod % UW::from(p)).digits()[0];
        let t = mulp(subp(r, xm, p), invp(pm, p), p);
        x = x + prod * UW::from(t);
        prod = prod * UW::from(p);
    }
    let half = prod >> 1;
    let det = if x > half { -W::cast_from(prod - x) } else { W::cast_from(x) };
    (det, k)
}

/// Fraction-free Bareiss determinant over `BInt<N>`; the caller guarantees
/// 2*hadamard_bits + 64 <= 64*N (intermediate products of two minors).
pub fn det_bareiss_n<const N: usize>(m: &[Vec<i64>]) -> BInt<N> {
    let n = m.len();
    if n == 0 {
        return BInt::<N>::ONE;
    }
    let conv = |x: i64| -> BInt<N> {
        let v = BInt::<N>::cast_from(BUint::<N>::from(x.unsigned_abs()));
        if x < 0 {
            -v
        } else {
            v
        }
    };
    let mut a: Vec<Vec<BInt<N>>> = m.iter().map(|r| r.iter().map(|&x| conv(x)).collect()).collect();
    let mut prev = BInt::<N>::ONE;
    let mut neg = false;
    for k in 0..n - 1 {
        if a[k][k].is_zero() {
            let Some(piv) = (k + 1..n).find(|&i| !a[i][k].is_zero()) else {
                return BInt::<N>::ZERO;
            };
            a.swap(piv, k);
            neg = !neg;
        }
        let akk = a[k][k];
        for i in k + 1..n {
            let aik = a[i][k];
            for j in k + 1..n {
                let num = a[i][j] * akk - aik * a[k][j];
                // exact division (Bareiss)
                a[i][j] = num / prev;
            }
            a[i][k] = BInt::<N>::ZERO;
        }
        prev = akk;
    }
    let d = a[n - 1][n - 1];
    if neg {
        -d
    } else {
        d
    }
}

/// Bareiss determinant with the narrowest sufficient width; None if the matrix is too
/// large for the kit's Bareiss (then only `det_crt` applies).
pub fn det_bareiss(m: &[Vec<i64>]) -> Option<W> {
    let Some(hb) = hadamard_bits(m) else {
        return Some(W::ZERO);
    };
    let need = 2 * hb as usize + 64;
    if need <= 64 * 8 {
        Some(w_resize(&det_bareiss_n::<8>(m)))
    } else if need <= 64 * 16 {
        Some(w_resize(&det_bareiss_n::<16>(m)))
    } else if need <= 64 * 32 {
        Some(w_resize(&det_bareiss_n::<32>(m)))
    } else if need <= 64 * 80 {
        Some(det_bareiss_n::<80>(m))
    } else {
        None
    }
}

// ---------------------------------------------------------------------------
// Smith normal form (textbook), invariant factors

fn w_gcd(a: &UW, b: &UW) -> UW {
    let (mut a, mut b) = (*a, *b);
    while !b.is_zero() {
        let r = a % b;
        a = b;
        b = r;
    }
    a
}

const SNF_GUARD_BITS: u32 = 4500;

/// Smith normal form of an integer matrix (rows x cols, any shape) by the textbook
/// algorithm: repeatedly move a non-zero entry of smallest magnitude to the pivot
/// position, reduce its row and column by Euclidean steps, enforce divisibility of the
/// rest.  Returns the non-zero diagonal entries d_1 | d_2 | ... (positive), i.e. the rank
/// many invariant factors; None if an intermediate entry exceeds the guard (no answer).
pub fn smith_normal_form(m: &[Vec<i64>]) -> Option<Vec<UW>> {
    smith_normal_form_w(m.iter().map(|r| r.iter().map(|&x| w_from_i128(x as i128)).collect()).collect())
}

/// Same on wide entries.
pub fn smith_normal_form_w(m: Vec<Vec<W>>) -> Option<Vec<UW>> {
    let nr = m.len();
    let nc = if nr == 0 { 0 } else { m[0].len() };
    let mut a: Vec<Vec<W>> = m;
    let mut diag: Vec<UW> = vec![];
    let mut t = 0;
    while t < nr.min(nc) {
        // smallest non-zero entry of the remaining block
        let mut best: Option<(usize, usize, UW)> = None;
        for i in t..nr {
            for j in t..nc {
                if !a[i][j].is_zero() {
                    let v = a[i][j].unsigned_abs();
                    if v.bits() > SNF_GUARD_BITS {
                        return None;
                    }
                    if best.as_ref().map_or(true, |b| v < b.2) {
                        best = Some((i, j, v));
                    }
                }
            }
        }
        let Some((bi, bj, _)) = best else {
            break;
        };
        a.swap(t, bi);
        for r in a.iter_mut() {
            r.swap(t, bj);
        }
        // reduce column t and row t by the pivot; if a remainder is left, restart with the smaller pivot
        let piv = a[t][t];
        let mut dirty = false;
        for i in t + 1..nr {
            if a[i][t].is_zero() {
                continue;
            }
            let q = a[i][t] / piv;
            if !q.is_zero() {
                for j in t..nc {
                    let s = a[t][j] * q;
                    a[i][j] = a[i][j] - s;
                }
            }
            if !a[i][t].is_zero() {
                dirty = true;
            }
        }
        for j in t + 1..nc {
            if a[t][j].is_zero() {
                continue;
            }
            let q = a[t][j] / piv;
            if !q.is_zero() {
                for i in t..nr {
                    let s = a[i][t] * q;
                    a[i][j] = a[i][j] - s;
                }
            }
            if !a[t][j].is_zero() {
                dirty = true;
            }
        }
        if dirty {
            continue;
        }
        // divisibility of the remaining block by the pivot
        let mut bad: Option<usize> = None;
        'scan: for i in t + 1..nr {
            for j in t + 1..nc {
                if !(a[i][j] % piv).is_zero() {
                    bad = Some(i);
                    break 'scan;
                }
            }
        }
        if let Some(i) = bad {
            // add row i to row t: creates a non-multiple in row t, next round finds a smaller pivot
            for j in t..nc {
                let s = a[i][j];
                a[t][j] = a[t][j] + s;
            }
            continue;
        }
        diag.push(piv.unsigned_abs());
        t += 1;
    }
    Some(diag)
}

/// Invariant factors (> 1, each dividing the next) of the group ⊕ Z/d_i, from any list of
/// cyclic orders d_i >= 1, by the gcd/lcm exchange (no factoring).
pub fn invariant_factors(ds: &[u128]) -> Vec<u128> {
    let mut d: Vec<u128> = ds.to_vec();
    assert!(d.iter().all(|&x| x >= 1));
    let n = d.len();
    for i in 0..n {
        for j in i + 1..n {
            let g = gcd128(d[i], d[j]);
            let l = d[i] / g * d[j];
            d[i] = g;
            d[j] = l;
        }
    }
    d.into_iter().filter(|&x| x != 1).collect()
}

/// Same for wide integers (used on the kit's own Smith forms).
pub fn invariant_factors_w(ds: &[UW]) -> Vec<UW> {
    let mut d: Vec<UW> = ds.to_vec();
    let n = d.len();
    for i in 0..n {
        for j in i + 1..n {
            let g = w_gcd(&d[i], &d[j]);
            let l = d[i] / g * d[j];
            d[i] = g;
            d[j] = l;
        }
    }
    d.into_iter().filter(|x| *x != UW::ONE).collect()
}

// ---------------------------------------------------------------------------
// Berlekamp–Massey over GF(p), textbook (Massey 1969)

/// Returns (L, C) with C(x) = 1 + c_1 x + ... + c_L x^L the shortest connection polynomial:
/// sum_{j=0..L} c_j s_{i-j} = 0 for all L <= i < n.
pub fn massey(p: u64, s: &[u64]) -> (usize, Vec<u64>) {
    let n = s.len();
    let mut c = vec![0u64; n + 1];
    let mut b = vec![0u64; n + 1];
    c[0] = 1;
    b[0] = 1;
    let (mut l, mut m, mut bd) = (0usize, 1usize, 1u64);
    for i in 0..n {
        let mut d = s[i] % p;
        for j in 1..=l {
            d = addp(d, mulp(c[j], s[i - j] % p, p), p);
        }
        if d == 0 {
            m += 1;
        } else {
            let coef = mulp(d, invp(bd, p), p);
            if 2 * l <= i {
                let t = c.clone();
                for j in 0..=n - m {
                    if b[j] != 0 {
                        c[j + m] = subp(c[j + m], mulp(coef, b[j], p), p);
                    }
                }
                l = i + 1 - l;
                b = t;
                bd = d;
                m = 1;
            } else {
                for j in 0..=n - m {
                    if b[j] != 0 {
                        c[j + m] = subp(c[j + m], mulp(coef, b[j], p), p);
                    }
                }
                m += 1;
            }
        }
    }
    c.truncate(l + 1);
    (l, c)
}

// ---------------------------------------------------------------------------
// Krylov ranks mod p (classification of inputs only)

fn rank_mod_p(mut a: Vec<Vec<u64>>, p: u64) -> usize {
    let nr = a.len();
    let nc = if nr == 0 { 0 } else { a[0].len() };
    let mut rank = 0;
    for c in 0..nc {
        let Some(piv) = (rank..nr).find(|&i| a[i][c] != 0) else {
            continue;
        };
        a.swap(rank, piv);
        let dinv = invp(a[rank][c], p);
        let (head, tail) = a.split_at_mut(rank + 1);
        let prow = &head[rank];
        for r in tail.iter_mut() {
            if r[c] == 0 {
                continue;
            }
            let f = mulp(r[c], dinv, p);
            for j in c..nc {
                if prow[j] != 0 {
                    r[j] = subp(r[j], mulp(f, prow[j], p), p);
                }
            }
        }
        rank += 1;
        if rank == nr {
            break;
        }
    }
    rank
}

/// Sparse square matrix as rows of (column, coefficient); repeated columns add up.
pub fn sparse_to_dense(n: usize, rows: &[Vec<(u32, i32)>]) -> Vec<Vec<i64>> {
    let mut m = vec![vec![0i64; n]; rows.len()];
    for (i, r) in rows.iter().enumerate() {
        for &(j, e) in r {
            m[i][j as usize] += e as i64;
        }
    }
    m
}

/// dim span{ v, Mv, M^2 v, ... } mod p (right Krylov space), M dense n x n.
pub fn krylov_rank_right(m: &[Vec<i64>], v: &[u64], p: u64) -> usize {
    let n = m.len();
    let mp: Vec<Vec<(usize, u64)>> = m
        .iter()
        .map(|r| r.iter().enumerate().filter(|(_, &x)| x != 0).map(|(j, &x)| (j, red_i64(x, p))).collect())
        .collect();
    let mut vecs = Vec::with_capacity(n);
    let mut cur: Vec<u64> = v.iter().map(|&x| x % p).collect();
    for _ in 0..n {
        vecs.push(cur.clone());
        let mut nxt = vec![0u64; n];
        for i in 0..n {
            let mut acc = 0u64;
            for &(j, x) in &mp[i] {
                acc = addp(acc, mulp(x, cur[j], p), p);
            }
            nxt[i] = acc;
        }
        cur = nxt;
    }
    rank_mod_p(vecs, p)
}

/// dim span{ u^T, u^T M, u^T M^2, ... } mod p (left Krylov space).
pub fn krylov_rank_left(m: &[Vec<i64>], u: &[u64], p: u64) -> usize {
    let n = m.len();
    let mut t = vec![vec![0i64; n]; n];
    for i in 0..n {
        for j in 0..n {
            t[j][i] = m[i][j];
        }
    }
    krylov_rank_right(&t, u, p)
}

// ---------------------------------------------------------------------------
// Self-test (known values)

pub fn self_test() -> Result<(), String> {
    // GF(2)
    let cols = vec![vec![0usize, 3], vec![0, 2], vec![0, 1, 2], vec![0, 1, 3]];
    let m = BitMat::from_columns(4, &cols);
    if m.rank() != 3 {
        return Err(format!("gf2 rank {} != 3", m.rank()));
    }
    let v = bits_from_indices(&[0, 1, 2, 3], 4);
    if !is_zero_bits(&m.mul_vec(&v)) || !is_zero_bits(&gf2_mul_cols(4, &cols, &v)) {
        return Err("gf2 product: (1,1,1,1) should be in the kernel".into());
    }
    let v = bits_from_indices(&[0, 1], 4);
    if m.mul_vec(&v) != gf2_mul_cols(4, &cols, &v) || is_zero_bits(&m.mul_vec(&v)) {
        return Err("gf2 product mismatch".into());
    }
    // determinants of the repository's two test matrices (values from its own tests, computed with PARI)
    let m10: Vec<Vec<i64>> = vec![
        vec![14, 11, 22, 36, 31, 28, 15, 19, 15, 6],
        vec![13, 16, 17, 9, 2, 4, 21, 35, 2, 35],
        vec![14, 18, 19, 34, 4, 27, 5, 15, 11, 32],
        vec![25, 19, 25, 11, 25, 27, 25, 32, 28, 11],
        vec![27, 34, 28, 4, 9, 9, 7, 34, 32, 0],
        vec![1, 30, 6, 8, 18, 28, 16, 0, 28, 0],
        vec![14, 2, 29, 33, 13, 22, 19, 9, 16, 35],
        vec![18, 36, 27, 31, 2, 28, 24, 16, 13, 5],
        vec![23, 1, 25, 22, 0, 23, 8, 23, 23, 13],
        vec![0, 16, 10, 30, 13, 35, 34, 22, 17, 22],
    ];
    let want = w_from_i128(14293689752795);
    let (d, _) = det_crt(&m10);
    if d != want {
        return Err(format!("det_crt(M10) = {}", d));
    }
    if det_bareiss(&m10) != Some(want) {
        return Err("det_bareiss(M10) wrong".into());
    }
    // sign: swapping two rows negates
    let mut sw = m10.clone();
    sw.swap(2, 7);
    if det_crt(&sw).0 != -want || det_bareiss(&sw) != Some(-want) {
        return Err("determinant sign under a row swap".into());
    }
    // Vandermonde 1..6: prod_{i<j} (j - i) = 1!2!3!4!5! = 34560
    let vm: Vec<Vec<i64>> = (1..=6i64).map(|x| (0..6).map(|k| x.pow(k)).collect()).collect();
    if det_crt(&vm).0 != w_from_i128(34560) || det_bareiss(&vm) != Some(w_from_i128(34560)) {
        return Err("Vandermonde determinant".into());
    }
    // large entries: diag(2^62, -(2^62), 3) with a shear
    let big = 1i64 << 62;
    let mb = vec![vec![big, 1, 0], vec![0, -big, 5], vec![0, 0, 3]];
    let wantb = -(w_from_i128(big as i128) * w_from_i128(big as i128) * w_from_i128(3));
    if det_crt(&mb).0 != wantb || det_bareiss(&mb) != Some(wantb) {
        return Err("large-entry determinant".into());
    }
    let l = log2_abs(&wantb).unwrap();
    if (l - (124.0 + 3f64.log2())).abs() > 1e-9 {
        return Err(format!("log2_abs = {}", l));
    }
    // Smith normal form: [[2,4,4],[-6,6,12],[10,-4,-16]] -> (2, 6, 12)
    let s = smith_normal_form(&[vec![2, 4, 4], vec![-6, 6, 12], vec![10, -4, -16]]).ok_or("snf guard")?;
    if s != vec![UW::from(2u64), UW::from(6u64), UW::from(12u64)] {
        return Err(format!("snf = {:?}", s));
    }
    // overdetermined: rows (2,0),(0,3),(1,1) generate Z^2 -> (1,1)
    let s = smith_normal_form(&[vec![2, 0], vec![0, 3], vec![1, 1]]).ok_or("snf guard")?;
    if s != vec![UW::ONE, UW::ONE] {
        return Err(format!("snf overdetermined = {:?}", s));
    }
    if invariant_factors(&[4, 6, 10]) != vec![2, 2, 60] || invariant_factors(&[1, 1, 7]) != vec![7] {
        return Err("invariant_factors".into());
    }
    // Massey: Fibonacci mod 101 has L = 2, C = 1 - x - x^2
    let fib: Vec<u64> = {
        let mut v = vec![1u64, 1];
        for i in 2..12 {
            let x = (v[i - 1] + v[i - 2]) % 101;
            v.push(x);
        }
        v
    };
    let (l, c) = massey(101, &fib);
    if l != 2 || c != vec![1, 100, 100] {
        return Err(format!("massey = {} {:?}", l, c));
    }
    // Krylov: identity is derogatory, a companion-like cycle is not
    let id: Vec<Vec<i64>> = (0..5).map(|i| (0..5).map(|j| (i == j) as i64).collect()).collect();
    let p = crt_primes(1)[0];
    if krylov_rank_right(&id, &[1, 2, 3, 4, 5], p) != 1 {
        return Err("krylov rank identity".into());
    }
    let cyc: Vec<Vec<i64>> = (0..5).map(|i| (0..5).map(|j| ((i + 1) % 5 == j) as i64 * (1 + i as i64)).collect()).collect();
    if krylov_rank_left(&cyc, &[1, 0, 0, 0, 0], p) != 5 {
        return Err("krylov rank cycle".into());
    }
    Ok(())
}
