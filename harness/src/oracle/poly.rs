//! Reference polynomial arithmetic over Z/nZ (DESIGN.md 1.4).  Nothing here calls yamaquasi.
//!
//! Everything is the O(n^2) textbook definition on plain residues (`U512` values in
//! [0, n)), computed with bnum integers: products of two residues are accumulated
//! *unreduced* in the narrowest `BUint<W>` that holds `terms * n^2` and reduced once per
//! coefficient with `%`.  Zero coefficients of the first operand are skipped, so that a
//! sparse operand gives an exact oracle for very long polynomials.  For the few input
//! families whose product has a closed form (geometric progressions with a common ratio,
//! which includes constant polynomials) the closed form is provided as well; it is
//! cross-checked against the schoolbook product in `self_test`.
//!
//! Trusted base: bnum `+ - * % << >>`, comparisons, and `oracle::int` (Euclid).

use bnum::BUint;

use super::int::{ref_invmod, resize, widen, narrow, Ref, U1024};

pub type U512 = BUint<8>;

/// Largest modulus width handled (bits): sums of 2^20 products stay below 2^1024.
pub const MAX_MOD_BITS: u32 = 502;

/// Montgomery parameters of a modulus, computed independently of the library:
/// R = 2^(64k) with k = ceil(bits/64) (the representation documented in arith_montgomery).
#[derive(Clone, Debug)]
pub struct Mont {
    pub n: U512,
    pub k: u32,
    /// R^-1 mod n
    pub rinv: U512,
}

impl Mont {
    pub fn new(n: &U512) -> Mont {
        assert!(n.bit(0) && !n.is_one());
        let k = (n.bits() + 63) / 64;
        let r: Ref = (Ref::ONE << (64 * k)) % widen(n);
        let rinv = ref_invmod(&r, &widen(n)).expect("R is invertible modulo an odd n");
        Mont { n: *n, k, rinv: narrow(&rinv) }
    }
    /// x (a residue) -> x*R mod n
    pub fn to_mont(&self, x: &U512) -> U512 {
        let w: U1024 = resize(x);
        let nn: U1024 = resize(&self.n);
        resize(&((w << (64 * self.k)) % nn))
    }
    /// m (any integer < 2^512) -> m*R^-1 mod n
    pub fn from_mont(&self, m: &U512) -> U512 {
        mulmod(&(*m % self.n), &self.rinv, &self.n)
    }
}

/// a*b mod n for a, b < 2^512.
pub fn mulmod(a: &U512, b: &U512, n: &U512) -> U512 {
    let (a, b, n): (U1024, U1024, U1024) = (resize(a), resize(b), resize(n));
    resize(&((a * b) % n))
}

pub fn addmod(a: &U512, b: &U512, n: &U512) -> U512 {
    let (a, b, n): (U1024, U1024, U1024) = (resize(a), resize(b), resize(n));
    resize(&((a + b) % n))
}

/// (a - b) mod n for a, b in [0, n)
pub fn submod(a: &U512, b: &U512, n: &U512) -> U512 {
    if a >= b {
        *a - *b
    } else {
        *n - (*b - *a)
    }
}

pub fn powmod(b: &U512, mut e: u64, n: &U512) -> U512 {
    let mut res = U512::ONE % *n;
    let mut sq = *b % *n;
    while e > 0 {
        if e & 1 == 1 {
            res = mulmod(&res, &sq, n);
        }
        sq = mulmod(&sq, &sq, n);
        e >>= 1;
    }
    res
}

/// Accumulator width (words) such that `terms * n^2 < 2^(64W)`.
fn acc_words(n: &U512, terms: usize) -> usize {
    let need = 2 * n.bits() + (usize::BITS - terms.leading_zeros()) + 1;
    if need <= 256 {
        4
    } else if need <= 512 {
        8
    } else {
        assert!(need <= 1024, "modulus too wide for the reference accumulator");
        16
    }
}

fn mul_w<const W: usize>(n: &U512, p: &[U512], q: &[U512]) -> Vec<U512> {
    let nn: BUint<W> = resize(n);
    let pw: Vec<BUint<W>> = p.iter().map(resize).collect();
    let qw: Vec<BUint<W>> = q.iter().map(resize).collect();
    let mut acc = vec![BUint::<W>::ZERO; p.len() + q.len() - 1];
    for (i, a) in pw.iter().enumerate() {
        if a.is_zero() {
            continue;
        }
        for (j, b) in qw.iter().enumerate() {
            if b.is_zero() {
                continue;
            }
            acc[i + j] += *a * *b;
        }
    }
    acc.iter().map(|x| resize(&(*x % nn))).collect()
}

/// Schoolbook product: `p.len() + q.len() - 1` coefficients (both operands non-empty,
/// coefficients in [0, n)).  Cost: nnz(p) * nnz(q) multiplications.
pub fn mul(n: &U512, p: &[U512], q: &[U512]) -> Vec<U512> {
    assert!(!p.is_empty() && !q.is_empty());
    match acc_words(n, p.len().min(q.len())) {
        4 => mul_w::<4>(n, p, q),
        8 => mul_w::<8>(n, p, q),
        _ => mul_w::<16>(n, p, q),
    }
}

/// Number of multiplications `mul` performs.
pub fn mul_cost(p: &[U512], q: &[U512]) -> u64 {
    let a = p.iter().filter(|x| !x.is_zero()).count() as u64;
    let b = q.iter().filter(|x| !x.is_zero()).count() as u64;
    a * b
}

/// Reduce a polynomial modulo X^size - 1 (coefficient k goes to k mod size).
pub fn fold(n: &U512, c: &[U512], size: usize) -> Vec<U512> {
    let mut out = vec![U512::ZERO; size];
    for (k, v) in c.iter().enumerate() {
        let s = &mut out[k % size];
        *s = addmod(s, v, n);
    }
    out
}

/// Cyclic convolution modulo X^size - 1 (the definition: sum over i + j = k mod size).
pub fn cyclic(n: &U512, p: &[U512], q: &[U512], size: usize) -> Vec<U512> {
    fold(n, &mul(n, p, q), size)
}

/// Middle product: coefficients [m-1, 2m-1) of p*q where m = q.len(), p.len() = 2m-1.
pub fn middle(n: &U512, p: &[U512], q: &[U512]) -> Vec<U512> {
    let m = q.len();
    assert!(p.len() == 2 * m - 1);
    mul(n, p, q)[m - 1..2 * m - 1].to_vec()
}

fn series_div_w<const W: usize>(n: &U512, p: &[U512], q: &[U512], q0inv: &U512) -> Vec<U512> {
    let len = p.len();
    let nn: BUint<W> = resize(n);
    let qw: Vec<BUint<W>> = q.iter().map(resize).collect();
    let mut zw: Vec<BUint<W>> = Vec::with_capacity(len);
    let mut z: Vec<U512> = Vec::with_capacity(len);
    for k in 0..len {
        // z_k = (p_k - sum_{j=1..k} q_j z_{k-j}) / q_0
        let mut acc = BUint::<W>::ZERO;
        for j in 1..=k {
            if !qw[j].is_zero() {
                acc += qw[j] * zw[k - j];
            }
        }
        let s: U512 = resize(&(acc % nn));
        let t = submod(&p[k], &s, n);
        let v = mulmod(&t, q0inv, n);
        zw.push(resize(&v));
        z.push(v);
    }
    z
}

/// Power-series quotient p/q mod x^len by the defining recurrence (q[0] invertible mod n).
/// Returns None when q[0] is not invertible.
pub fn series_div(n: &U512, p: &[U512], q: &[U512]) -> Option<Vec<U512>> {
    assert!(p.len() == q.len() && !p.is_empty());
    let q0inv: U512 = narrow(&ref_invmod(&widen(&q[0]), &widen(n))?);
    Some(match acc_words(n, p.len()) {
        4 => series_div_w::<4>(n, p, q, &q0inv),
        8 => series_div_w::<8>(n, p, q, &q0inv),
        _ => series_div_w::<16>(n, p, q, &q0inv),
    })
}

/// prod (x - r_i), expanded one factor at a time; coefficients low to high, monic,
/// `roots.len() + 1` entries.
pub fn from_roots(n: &U512, roots: &[U512]) -> Vec<U512> {
    let nn: U1024 = resize(n);
    let mut c: Vec<U1024> = vec![U1024::ONE % nn];
    for r in roots {
        // multiply by (x + m) with m = -r mod n
        let m: U1024 = resize(&submod(&U512::ZERO, &(*r % *n), n));
        let mut next = vec![U1024::ZERO; c.len() + 1];
        for i in 0..=c.len() {
            let lo = if i < c.len() { c[i] * m } else { U1024::ZERO };
            let hi = if i > 0 { c[i - 1] } else { U1024::ZERO };
            next[i] = (lo + hi) % nn;
        }
        c = next;
    }
    c.iter().map(resize).collect()
}

/// Horner evaluation of sum c_i x^i.
pub fn horner(n: &U512, c: &[U512], x: &U512) -> U512 {
    let nn: U1024 = resize(n);
    let xx: U1024 = resize(&(*x % *n));
    let mut v = U1024::ZERO;
    for ci in c.iter().rev() {
        v = (v * xx + resize::<8, 16>(ci)) % nn;
    }
    resize(&v)
}

/// prod_i (b - a_i) mod n
pub fn eval_roots_at(n: &U512, a: &[U512], b: &U512) -> U512 {
    let nn: U1024 = resize(n);
    let mut v = U1024::ONE % nn;
    for ai in a {
        let d: U1024 = resize(&submod(b, ai, n));
        v = (v * d) % nn;
    }
    resize(&v)
}

/// Number of pairs (i, j), 0 <= i < lp, 0 <= j < lq, with i + j = k.
pub fn pairs(k: usize, lp: usize, lq: usize) -> u64 {
    if lp == 0 || lq == 0 || k > lp + lq - 2 {
        return 0;
    }
    let lo = k.saturating_sub(lq - 1);
    let hi = k.min(lp - 1);
    (hi - lo + 1) as u64
}

/// Closed form of the product of two geometric progressions with a common ratio:
/// p_i = a r^i (i < lp), q_j = b r^j (j < lq)  =>  (pq)_k = a b r^k #pairs(k).
/// (r = 1: constant polynomials, e.g. all coefficients n-1.)
pub fn geometric_product(n: &U512, a: &U512, b: &U512, r: &U512, lp: usize, lq: usize) -> Vec<U512> {
    let ab = mulmod(&(*a % *n), &(*b % *n), n);
    let r = *r % *n;
    let mut rk = U512::ONE % *n;
    let mut out = Vec::with_capacity(lp + lq - 1);
    for k in 0..lp + lq - 1 {
        let c = mulmod(&ab, &rk, n);
        out.push(mulmod(&c, &U512::from(pairs(k, lp, lq)), n));
        rk = mulmod(&rk, &r, n);
    }
    out
}

/// Geometric progression a r^i, i < len.
pub fn geometric(n: &U512, a: &U512, r: &U512, len: usize) -> Vec<U512> {
    let r = *r % *n;
    let mut v = *a % *n;
    let mut out = Vec::with_capacity(len);
    for _ in 0..len {
        out.push(v);
        v = mulmod(&v, &r, n);
    }
    out
}

/// Kit self-test for this file: known values and closed form vs schoolbook.
pub fn self_test() -> Result<(), String> {
    let n = U512::from(1_000_003u64);
    let f = |v: &[u64]| -> Vec<U512> { v.iter().map(|&x| U512::from(x)).collect() };
    // (1 + 2x + 3x^2)(4 + 5x) = 4 + 13x + 22x^2 + 15x^3
    if mul(&n, &f(&[1, 2, 3]), &f(&[4, 5])) != f(&[4, 13, 22, 15]) {
        return Err("poly mul".into());
    }
    if cyclic(&n, &f(&[1, 2, 3]), &f(&[4, 5]), 2) != f(&[26, 28]) {
        return Err("poly cyclic".into());
    }
    if middle(&n, &f(&[1, 2, 3]), &f(&[4, 5])) != f(&[13, 22]) {
        return Err("poly middle".into());
    }
    // (x-1)(x-2)(x-3) = x^3 - 6x^2 + 11x - 6
    if from_roots(&n, &f(&[1, 2, 3])) != f(&[1_000_003 - 6, 11, 1_000_003 - 6, 1]) {
        return Err("from_roots".into());
    }
    if horner(&n, &f(&[1_000_003 - 6, 11, 1_000_003 - 6, 1]), &U512::from(5u64)) != U512::from(24u64)
        || eval_roots_at(&n, &f(&[1, 2, 3]), &U512::from(5u64)) != U512::from(24u64)
    {
        return Err("horner".into());
    }
    // 1/(1-x) = 1 + x + x^2 ...;  (1+x)/(1-x) = 1 + 2x + 2x^2 ...
    let q = f(&[1, 1_000_002, 0, 0]);
    if series_div(&n, &f(&[1, 1, 0, 0]), &q) != Some(f(&[1, 2, 2, 2])) {
        return Err("series_div".into());
    }
    // series_div(p, q) * q = p mod x^len for a generic pair
    let p = f(&[5, 7, 11, 13, 17, 19, 23]);
    let q = f(&[3, 1, 4, 1, 5, 9, 2]);
    let z = series_div(&n, &p, &q).ok_or("series_div none")?;
    if mul(&n, &z, &q)[..7] != p[..] {
        return Err("series_div * q != p".into());
    }
    // closed form vs schoolbook, several widths
    for (nbits, lp, lq) in [(61u32, 7usize, 5usize), (127, 9, 9), (255, 4, 11), (500, 6, 3)] {
        let n = (U512::ONE << nbits) - U512::from(1u64 + 2 * (nbits as u64 % 7));
        let a = n - U512::ONE;
        let b = (n >> 1u32) + U512::from(3u64);
        let r = (n >> 2u32) + U512::from(12345u64);
        for r in [U512::ONE, r] {
            let gp = geometric(&n, &a, &r, lp);
            let gq = geometric(&n, &b, &r, lq);
            if mul(&n, &gp, &gq) != geometric_product(&n, &a, &b, &r, lp, lq) {
                return Err(format!("geometric closed form ({} bits)", nbits));
            }
        }
        let m = Mont::new(&n);
        if m.from_mont(&m.to_mont(&b)) != b {
            return Err("montgomery round trip".into());
        }
    }
    Ok(())
}
