//! Reference model of a quadratic-sieve interval given as ROOT TABLES (DESIGN.md C13).
//!
//! The sieve interval starts at position 0; prime number `j` (value `p_j`) divides the
//! polynomial value at absolute position `x` iff `x mod p_j` is one of its (one or two)
//! roots `r1_j`, `r2_j`.  Everything here is computed from that definition with plain
//! u64 arithmetic: no library code, no cursors, no hash tables.
//!
//! Besides the divisor lists the model recomputes the occupancy of the *bounded* bucket
//! tables the library documents for primes of 16..18 bits (32 slots per 256 positions and
//! per size class, 32 spare slots per size class and sieve): only a hit that falls into a
//! bucket holding more than 32 hits of its class, in a sieve where that class overflowed
//! more than 32 times in total, may legitimately be forgotten.

pub const BLOCK: usize = 32 * 1024;
/// width of a bucket of the bounded tables (classes 16..18)
pub const BUCKET_WIDTH: usize = 256;
/// slots per bucket and spare slots per class
pub const BUCKET_SLOTS: u32 = 32;
pub const SPARE_SLOTS: u64 = 32;
/// width of a bucket of the unbounded tables (classes >= 19)
pub const LBUCKET_WIDTH: usize = 16384;
pub const LBUCKET_SLOTS: u32 = 1024;

#[inline]
pub fn bitlen(p: u32) -> u32 {
    32 - p.leading_zeros()
}

/// The definition itself (used to cross-check the enumerating model on sampled positions).
#[inline]
pub fn divides_by_definition(abs: u64, p: u32, r1: u32, r2: u32) -> bool {
    let m = (abs % p as u64) as u32;
    m == r1 || m == r2
}

/// Offset (relative to `start`) of the first position >= start that is = r mod p.
#[inline]
fn first_hit(start: u64, p: u32, r: u32) -> u64 {
    let rem = start % p as u64;
    let r = r as u64;
    if r >= rem {
        r - rem
    } else {
        r + p as u64 - rem
    }
}

/// Divisors of every position of one block (positions `blk*BLOCK .. (blk+1)*BLOCK`).
pub struct BlockModel {
    /// CSR index: divisors of position i are `items[start[i]..start[i+1]]` (ascending prime index)
    pub start: Vec<u32>,
    pub items: Vec<u32>,
    /// sum of the bit lengths of the dividing primes
    pub sums: Vec<u16>,
}

impl BlockModel {
    #[inline]
    pub fn at(&self, i: usize) -> &[u32] {
        &self.items[self.start[i] as usize..self.start[i + 1] as usize]
    }
}

pub fn block_model(primes: &[u32], r1: &[u32], r2: &[u32], blk: u64) -> BlockModel {
    let start_abs = blk * BLOCK as u64;
    let mut counts = vec![0u32; BLOCK + 1];
    let mut sums = vec![0u16; BLOCK];
    // pass 1: count
    for (j, &p) in primes.iter().enumerate() {
        let l = bitlen(p) as u16;
        let (a, b) = (r1[j], r2[j]);
        let mut x = first_hit(start_abs, p, a);
        while x < BLOCK as u64 {
            counts[x as usize + 1] += 1;
            sums[x as usize] += l;
            x += p as u64;
        }
        if b != a {
            let mut x = first_hit(start_abs, p, b);
            while x < BLOCK as u64 {
                counts[x as usize + 1] += 1;
                sums[x as usize] += l;
                x += p as u64;
            }
        }
    }
    for i in 0..BLOCK {
        counts[i + 1] += counts[i];
    }
    let start = counts;
    let mut fill: Vec<u32> = start[..BLOCK].to_vec();
    let mut items = vec![0u32; start[BLOCK] as usize];
    // pass 2: fill (ascending j => ascending prime index inside each position)
    for (j, &p) in primes.iter().enumerate() {
        let (a, b) = (r1[j], r2[j]);
        let mut x = first_hit(start_abs, p, a);
        while x < BLOCK as u64 {
            items[fill[x as usize] as usize] = j as u32;
            fill[x as usize] += 1;
            x += p as u64;
        }
        if b != a {
            let mut x = first_hit(start_abs, p, b);
            while x < BLOCK as u64 {
                items[fill[x as usize] as usize] = j as u32;
                fill[x as usize] += 1;
                x += p as u64;
            }
        }
    }
    BlockModel { start, items, sums }
}

/// Occupancy of the bucket tables over a whole sieve of `nblocks` blocks.
pub struct Occupancy {
    /// per class 16, 17, 18: hits per 256-wide bucket (index = position / 256)
    pub small: [Vec<u16>; 3],
    /// per class 16, 17, 18: sum over buckets of max(0, hits - 32) = number of overflow events
    pub over_total: [u64; 3],
    /// classes >= 19 together per class: hits per 16384-wide bucket, keyed by class - 19
    pub large: Vec<Vec<u32>>,
}

pub fn occupancy(primes: &[u32], r1: &[u32], r2: &[u32], nblocks: usize) -> Occupancy {
    let interval = (nblocks * BLOCK) as u64;
    let nb = nblocks * BLOCK / BUCKET_WIDTH;
    let nlb = nblocks * BLOCK / LBUCKET_WIDTH;
    let mut small = [vec![0u16; nb], vec![0u16; nb], vec![0u16; nb]];
    let maxlog = primes.last().map(|&p| bitlen(p)).unwrap_or(0);
    let mut large: Vec<Vec<u32>> = (19..=maxlog.max(18)).map(|_| vec![0u32; nlb]).collect();
    for (j, &p) in primes.iter().enumerate() {
        let l = bitlen(p);
        if l < 16 {
            continue;
        }
        let mut roots = vec![r1[j]];
        if r2[j] != r1[j] {
            roots.push(r2[j]);
        }
        for r in roots {
            let mut x = r as u64;
            while x < interval {
                if l <= 18 {
                    small[(l - 16) as usize][x as usize / BUCKET_WIDTH] += 1;
                } else {
                    large[(l - 19) as usize][x as usize / LBUCKET_WIDTH] += 1;
                }
                x += p as u64;
            }
        }
    }
    let mut over_total = [0u64; 3];
    for c in 0..3 {
        over_total[c] = small[c]
            .iter()
            .map(|&h| (h as u64).saturating_sub(BUCKET_SLOTS as u64))
            .sum();
    }
    Occupancy { small, over_total, large }
}

/// Roots of the same polynomial seen from an interval that starts `delta` positions later.
pub fn shift_roots(primes: &[u32], r: &[u32], delta: u64) -> Vec<u32> {
    primes
        .iter()
        .zip(r)
        .map(|(&p, &r)| {
            let d = (delta % p as u64) as u32;
            if r >= d {
                r - d
            } else {
                r + p - d
            }
        })
        .collect()
}

#[cfg(test)]
mod tests {
    use super::*;
    #[test]
    fn model_matches_definition() {
        let primes = [2u32, 3, 5, 7, 11, 101, 32771, 65537];
        let r1 = [1u32, 0, 4, 3, 10, 100, 32770, 5];
        let r2 = [1u32, 2, 4, 6, 0, 7, 0, 65536];
        for blk in [0u64, 1, 5] {
            let m = block_model(&primes, &r1, &r2, blk);
            for i in (0..BLOCK).step_by(97) {
                let want: Vec<u32> = (0..primes.len() as u32)
                    .filter(|&j| {
                        divides_by_definition(blk * BLOCK as u64 + i as u64, primes[j as usize], r1[j as usize], r2[j as usize])
                    })
                    .collect();
                assert_eq!(m.at(i), &want[..]);
            }
        }
    }
}
