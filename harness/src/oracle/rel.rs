//! Reference code for quadratic-sieve relations (DESIGN.md C11).  Nothing here calls yamaquasi.
//!
//! * `rhs_mod` / `is_congruence`: independent evaluator of `x^2 = cofactor * prod p^k (mod n)`
//!   (bnum `*` and `%` on 1024-bit integers, square-and-multiply from `oracle::int::powmod`).
//! * `World`: a synthetic modulus `n = P1*..*Pm` (distinct odd primes below 2^63) together with
//!   square roots modulo n of -1 (when every Pj = 1 mod 4), of a set of small primes and of a pool
//!   of "large primes", all obtained from Cipolla roots modulo the Pj glued by CRT.  A relation
//!   built as a product of such roots is a true congruence by construction.
//! * `emulate_fbase`: which primes `FBase::new(n, size)` is documented to contain
//!   (the first primes with (n|q) != -1, truncated to a multiple of 8).
//! * `qs_relations`: smooth values of `x^2 - n` around sqrt(n) by trial division (tiny moduli,
//!   including moduli whose prime factors belong to the factor base).

use bnum::BUint;
use std::sync::OnceLock;

use crate::oracle::int::{
    jacobi64, mulmod, mulmod64, powmod, powmod64, prime64, ref_isprime64, ref_isqrt, ref_sieve, sqrt_mod_p64,
    SplitMix, U1024,
};

/// prod p^k * cofactor (mod n) for a factor list in the library's convention
/// (`-1` carries the sign).  None if an entry is neither -1 nor positive.
/// Requires n < 2^512.
pub fn rhs_mod(n: &U1024, cofactor: u64, factors: &[(i64, u64)]) -> Option<U1024> {
    debug_assert!(n.bits() <= 512 && !n.is_zero());
    let mut acc: U1024 = U1024::from(cofactor) % *n;
    let mut neg = false;
    // small factors are gathered in a machine word before a long multiplication
    let mut chunk: u128 = 1;
    let flush = |acc: &mut U1024, chunk: &mut u128| {
        if *chunk != 1 {
            let c = U1024::from(*chunk) % *n;
            *acc = mulmod(acc, &c, n);
            *chunk = 1;
        }
    };
    for &(p, k) in factors {
        if p == -1 {
            if k % 2 == 1 {
                neg = !neg;
            }
            continue;
        }
        if p <= 0 {
            return None;
        }
        let p = p as u64;
        if k <= 8 {
            for _ in 0..k {
                if chunk >> 64 != 0 {
                    flush(&mut acc, &mut chunk);
                }
                chunk *= p as u128;
            }
        } else {
            flush(&mut acc, &mut chunk);
            let t = powmod(&(U1024::from(p) % *n), &BUint::<1>::from(k), n);
            acc = mulmod(&acc, &t, n);
        }
    }
    flush(&mut acc, &mut chunk);
    if neg && !acc.is_zero() {
        acc = *n - acc;
    }
    Some(acc)
}

/// x^2 = cofactor * prod p^k (mod n) ?   (x is reduced first; n < 2^512)
pub fn is_congruence(n: &U1024, x: &U1024, cofactor: u64, factors: &[(i64, u64)]) -> bool {
    let Some(rhs) = rhs_mod(n, cofactor, factors) else {
        return false;
    };
    let xr = *x % *n;
    mulmod(&xr, &xr, n) == rhs
}

fn small_primes() -> &'static Vec<u32> {
    static P: OnceLock<Vec<u32>> = OnceLock::new();
    P.get_or_init(|| ref_sieve(1 << 18))
}

/// The primes `FBase::new(n, size)` is documented to hold: among the first `2*size+40`
/// primes those with q = 2, q | n or (n|q) = 1, truncated to a multiple of 8 not above
/// `8*ceil(size/8)`.  `nmod(q)` returns n mod q.
pub fn emulate_fbase(nmod: impl Fn(u64) -> u64, size: u32) -> Vec<u32> {
    let ps = small_primes();
    let want = (2 * size + 40) as usize;
    assert!(want <= ps.len());
    let mut out = vec![];
    for &q in &ps[..want] {
        let r = nmod(q as u64);
        if q == 2 || r == 0 || jacobi64(r, q as u64) == 1 {
            out.push(q);
        }
    }
    let keep = 8 * std::cmp::min((size as usize + 7) / 8, out.len() / 8);
    out.truncate(keep);
    out
}

#[derive(Clone, Debug)]
pub struct WorldSpec {
    /// bit lengths of the prime factors (2..=8 entries, each 16..=62)
    pub prime_bits: Vec<u32>,
    pub seed: u64,
    /// 0: every Pj = 1 mod 8 (so -1 and 2 are squares), 1: Pj = 1 mod 4, 2: any odd prime (no sign)
    pub class: u8,
    /// requested factor base size (multiple of 8); doubled until >= 3 usable primes
    pub fb_size: u32,
    /// number of large primes in the pool
    pub pool: usize,
    /// 0: maxlarge = bound * lf, 1: maxlarge = 2^32 - 1, 2: maxlarge = largest pool prime
    pub maxlarge_mode: u8,
    pub lf: u32,
}

#[derive(Clone, Debug)]
pub struct World {
    pub primes: Vec<u64>,
    pub n: U1024,
    /// CRT idempotents: e[j] = 1 mod Pj, 0 mod the others
    pub idem: Vec<U1024>,
    /// square root of -1 (if every Pj = 1 mod 4)
    pub i_root: Option<U1024>,
    pub fb_size: u32,
    /// emulated factor base of (n, fb_size)
    pub fb: Vec<u32>,
    /// factor base primes that are squares modulo every Pj, with a square root modulo n
    pub ells: Vec<(u32, U1024)>,
    /// large primes (> fb bound, squares modulo every Pj) with a square root modulo n
    pub larges: Vec<(u32, U1024)>,
    pub maxlarge: u64,
}

impl World {
    pub fn bound(&self) -> u32 {
        *self.fb.last().unwrap()
    }

    pub fn crt(&self, residues: &[u64]) -> U1024 {
        let mut acc = U1024::ZERO;
        for (j, &r) in residues.iter().enumerate() {
            let t = mulmod(&self.idem[j], &U1024::from(r), &self.n);
            acc = (acc + t) % self.n;
        }
        acc
    }

    /// Square root of unity selected by the bits of `sel` (bit j set: -1 modulo Pj).
    pub fn unity(&self, sel: u32) -> U1024 {
        let res: Vec<u64> = self
            .primes
            .iter()
            .enumerate()
            .map(|(j, &p)| if sel >> j & 1 == 1 { p - 1 } else { 1 })
            .collect();
        self.crt(&res)
    }

    /// Is the selected root of unity +1 or -1?
    pub fn unity_trivial(&self, sel: u32) -> bool {
        let m = self.primes.len() as u32;
        let s = sel & ((1 << m) - 1);
        s == 0 || s == (1 << m) - 1
    }

    fn root_of(&self, a: u64) -> Option<U1024> {
        let mut res = vec![];
        for &p in &self.primes {
            if a % p == 0 {
                return None;
            }
            if jacobi64(a % p, p) != 1 {
                return None;
            }
            res.push(sqrt_mod_p64(a % p, p)?);
        }
        Some(self.crt(&res))
    }

    pub fn build(spec: &WorldSpec) -> World {
        let mut rng = SplitMix(spec.seed ^ 0xC11C_11C1_1C11);
        // 1. the prime factors
        let mut primes: Vec<u64> = vec![];
        for &b in &spec.prime_bits {
            let b = b.clamp(16, 62);
            loop {
                let p = prime64(b, &mut rng);
                let ok = match spec.class {
                    0 => p % 8 == 1,
                    1 => p % 4 == 1,
                    _ => true,
                };
                if ok && !primes.contains(&p) {
                    primes.push(p);
                    break;
                }
            }
        }
        let mut n = U1024::ONE;
        for &p in &primes {
            n = n * U1024::from(p);
        }
        // 2. CRT idempotents
        let mut idem = vec![];
        for &p in &primes {
            let m = n / U1024::from(p);
            let mp = (m % U1024::from(p)).digits()[0];
            let inv = powmod64(mp, p - 2, p);
            debug_assert_eq!(mulmod64(mp, inv, p), 1);
            idem.push(mulmod(&m, &U1024::from(inv), &n));
        }
        let mut w = World {
            primes: primes.clone(),
            n,
            idem,
            i_root: None,
            fb_size: 0,
            fb: vec![],
            ells: vec![],
            larges: vec![],
            maxlarge: 0,
        };
        if spec.class <= 1 {
            let res: Vec<u64> = primes.iter().map(|&p| sqrt_mod_p64(p - 1, p).unwrap()).collect();
            w.i_root = Some(w.crt(&res));
        }
        // 3. factor base and usable small primes
        let nmod = |q: u64| primes.iter().fold(1u64, |a, &p| mulmod64(a, p % q, q));
        let mut size = ((spec.fb_size.max(8) + 7) / 8) * 8;
        loop {
            let fb = emulate_fbase(nmod, size);
            let mut ells = vec![];
            for &q in &fb {
                if let Some(r) = w.root_of(q as u64) {
                    ells.push((q, r));
                }
            }
            if ells.len() >= 3 || size >= 4096 {
                w.fb = fb;
                w.ells = ells;
                w.fb_size = size;
                break;
            }
            size *= 2;
        }
        // 4. large primes
        let bound = w.bound() as u64;
        let cap: u64 = match spec.maxlarge_mode {
            1 => u32::MAX as u64,
            _ => (bound * (spec.lf.max(2) as u64)).min(u32::MAX as u64),
        };
        let mut larges: Vec<(u32, U1024)> = vec![];
        let lo = bound + 1;
        let span_bits = 64 - (cap / lo).max(1).leading_zeros(); // log-uniform start points
        let mut tries = 0;
        while larges.len() < spec.pool.max(2) && tries < 64 {
            tries += 1;
            let sh = rng.below(span_bits as u64 + 1) as u32;
            let top = (lo << sh).min(cap);
            let start = lo + rng.below(top - lo + 1);
            // scan upward, then downward from the start point
            let mut found = None;
            let mut q = start | 1;
            let mut steps = 0;
            while q < cap && steps < 4000 {
                if ref_isprime64(q) && !larges.iter().any(|l| l.0 as u64 == q) {
                    if let Some(r) = w.root_of(q) {
                        found = Some((q as u32, r));
                        break;
                    }
                }
                q += 2;
                steps += 1;
            }
            if found.is_none() {
                let mut q = (start | 1).min(cap - 1 - (cap & 1));
                let mut steps = 0;
                while q > bound && steps < 4000 {
                    if ref_isprime64(q) && !larges.iter().any(|l| l.0 as u64 == q) {
                        if let Some(r) = w.root_of(q) {
                            found = Some((q as u32, r));
                            break;
                        }
                    }
                    q -= 2;
                    steps += 1;
                }
            }
            if let Some(f) = found {
                larges.push(f);
            }
        }
        larges.sort_by_key(|l| l.0);
        w.larges = larges;
        w.maxlarge = match spec.maxlarge_mode {
            2 => w.larges.last().map(|l| l.0 as u64).unwrap_or(cap),
            _ => cap,
        };
        w
    }
}

/// One smooth value of the classical quadratic sieve polynomial: x^2 - n = sign * prod p^k
/// over the primes of `fb` (complete relations only).
#[derive(Clone, Debug)]
pub struct QsRel {
    pub x: u64,
    pub factors: Vec<(i64, u64)>,
}

/// Relations x^2 - n with x = isqrt(n) + t for the offsets `ts`, smooth over `fb`
/// (n < 2^62, trial division).  x = 0 mod n never occurs (0 < x < n is enforced).
pub fn qs_relations(n: u64, fb: &[u32], ts: impl Iterator<Item = i64>) -> Vec<QsRel> {
    let s = ref_isqrt(&BUint::<2>::from(n)).digits()[0] as i64;
    let mut out = vec![];
    for t in ts {
        let x = s + t;
        if x <= 0 || x as u64 >= n {
            continue;
        }
        let v: i128 = x as i128 * x as i128 - n as i128;
        if v == 0 {
            continue;
        }
        let mut factors = vec![];
        if v < 0 {
            factors.push((-1i64, 1u64));
        }
        let mut c = v.unsigned_abs();
        for &q in fb {
            let q = q as u128;
            if c % q == 0 {
                let mut k = 0;
                while c % q == 0 {
                    c /= q;
                    k += 1;
                }
                factors.push((q as i64, k));
            }
            if c == 1 {
                break;
            }
        }
        if c == 1 {
            out.push(QsRel { x: x as u64, factors });
        }
    }
    out
}

/// Kit self-test for this file.
pub fn self_test() -> Result<(), String> {
    let n = U1024::from(1_000_003u64 * 999_983);
    // 5^2 = 25, 7^2 = 49 = 7^2
    if !is_congruence(&n, &U1024::from(35u64), 1, &[(5, 2), (7, 2)]) {
        return Err("is_congruence false negative".into());
    }
    if is_congruence(&n, &U1024::from(35u64), 1, &[(5, 2), (7, 1)]) {
        return Err("is_congruence false positive".into());
    }
    if !is_congruence(&n, &(n - U1024::from(6u64)), 3, &[(-1, 2), (2, 2), (3, 1)]) {
        return Err("is_congruence cofactor".into());
    }
    let w = World::build(&WorldSpec {
        prime_bits: vec![20, 24, 17],
        seed: 7,
        class: 0,
        fb_size: 16,
        pool: 4,
        maxlarge_mode: 0,
        lf: 50,
    });
    let i = w.i_root.ok_or("no root of -1")?;
    if mulmod(&i, &i, &w.n) != w.n - U1024::ONE {
        return Err("root of -1".into());
    }
    for (q, r) in w.ells.iter().chain(w.larges.iter()) {
        if mulmod(r, r, &w.n) != U1024::from(*q) % w.n {
            return Err(format!("root of {}", q));
        }
    }
    if w.ells.len() < 3 || w.larges.len() < 2 {
        return Err("world too small".into());
    }
    let u = w.unity(0b010);
    if !mulmod(&u, &u, &w.n).is_one() || u.is_one() || u == w.n - U1024::ONE {
        return Err("root of unity".into());
    }
    let fb = emulate_fbase(|q| 15347 % q, 8);
    let rels = qs_relations(15347, &fb, -30..30);
    if rels.is_empty() {
        return Err("qs_relations empty".into());
    }
    for r in &rels {
        if !is_congruence(&U1024::from(15347u64), &U1024::from(r.x), 1, &r.factors) {
            return Err("qs_relations invalid".into());
        }
    }
    Ok(())
}
