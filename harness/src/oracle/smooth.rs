//! Number-theoretic helpers for the group-order methods (C16): neighbouring primes,
//! Euler φ, Lucas sequences V_k(P) (the reference for Williams' P+1), constructive
//! "never caught" cofactors.  Nothing here calls yamaquasi.
//! Trusted base: native u128 arithmetic, bnum, `ref_isprime64`.

use std::sync::OnceLock;

use bnum::BUint;

use super::int::{mulmod64, pocklington_check, powmod, powmod64, ref_isprime64, SplitMix, U1024};

/// Smallest prime > x (x < 2^63).
pub fn next_prime(x: u64) -> u64 {
    let mut c = x + 1;
    if c <= 2 {
        return 2;
    }
    if c % 2 == 0 {
        c += 1;
    }
    while !ref_isprime64(c) {
        c += 2;
    }
    c
}

/// Largest prime < x, or 0 if there is none.
pub fn prev_prime(x: u64) -> u64 {
    if x <= 2 {
        return 0;
    }
    if x == 3 {
        return 2;
    }
    let mut c = x - 1;
    if c % 2 == 0 {
        c -= 1;
    }
    while c >= 3 && !ref_isprime64(c) {
        c -= 2;
    }
    if c < 3 {
        2
    } else {
        c
    }
}

/// Largest prime <= x, or 0.
pub fn prime_at_most(x: u64) -> u64 {
    prev_prime(x + 1)
}

/// Prime factors of a small integer (trial division, n < 2^40 in practice).
pub fn small_factors(mut n: u64) -> Vec<(u64, u32)> {
    let mut out = vec![];
    let mut q = 2u64;
    while q * q <= n {
        if n % q == 0 {
            let mut e = 0;
            while n % q == 0 {
                n /= q;
                e += 1;
            }
            out.push((q, e));
        }
        q += if q == 2 { 1 } else { 2 };
    }
    if n > 1 {
        out.push((n, 1));
    }
    out
}

pub fn phi(n: u64) -> u64 {
    let mut r = n;
    for (q, _) in small_factors(n) {
        r -= r / q;
    }
    r
}

/// Largest prime factor (1 for n = 1).
pub fn largest_prime_factor(n: u64) -> u64 {
    small_factors(n).last().map(|x| x.0).unwrap_or(1)
}

/// Lucas sequence V_k(P, 1) mod n (V_0 = 2, V_1 = P), binary ladder on (V_m, V_{m+1}):
/// V_{2m} = V_m² − 2, V_{2m+1} = V_m·V_{m+1} − P.  n < 2^63.
pub fn lucas_v(pp: u64, k: u64, n: u64) -> u64 {
    let pp = pp % n;
    let two = 2 % n;
    if k == 0 {
        return two;
    }
    let sub = |a: u64, b: u64| if a >= b { a - b } else { n - (b - a) };
    let (mut v0, mut v1) = (two, pp); // (V_0, V_1)
    let bits = 64 - k.leading_zeros();
    for i in (0..bits).rev() {
        if (k >> i) & 1 == 0 {
            let a = sub(mulmod64(v0, v0, n), two);
            let b = sub(mulmod64(v0, v1, n), pp);
            v0 = a;
            v1 = b;
        } else {
            let a = sub(mulmod64(v0, v1, n), pp);
            let b = sub(mulmod64(v1, v1, n), two);
            v0 = a;
            v1 = b;
        }
    }
    v0
}

/// Same over 1024-bit integers for moduli below 2^512 (k below 2^64).
pub fn lucas_v_big(pp: &U1024, k: u64, n: &U1024) -> U1024 {
    let pp = *pp % *n;
    let two = U1024::from(2u64) % *n;
    if k == 0 {
        return two;
    }
    let sub = |a: U1024, b: U1024| if a >= b { a - b } else { *n - (b - a) };
    let mul = |a: U1024, b: U1024| (a * b) % *n;
    let (mut v0, mut v1) = (two, pp);
    let bits = 64 - k.leading_zeros();
    for i in (0..bits).rev() {
        if (k >> i) & 1 == 0 {
            let a = sub(mul(v0, v0), two);
            let b = sub(mul(v0, v1), pp);
            v0 = a;
            v1 = b;
        } else {
            let a = sub(mul(v0, v1), pp);
            let b = sub(mul(v1, v1), two);
            v0 = a;
            v1 = b;
        }
    }
    v0
}

// ---------------------------------------------------------------------------
// Cofactors that a P−1 / P+1 run can never catch

/// A prime q = 2·k·r + 1 < 2^62 with r a prime of 50..54 bits (far above every B1 and every
/// stage-2 bound of the tables, 2.3·10^13 < 2^45) such that r divides the order of 2 mod q.
#[derive(Clone, Copy, Debug)]
pub struct SafeCofactor {
    pub q: u64,
    pub r: u64,
}

/// Conditions re-verified by the checks: q prime, r prime, r | q−1, r | ord_q(2).
pub fn safe_for_pm1(q: u64, r: u64) -> bool {
    q > 2 && ref_isprime64(q) && ref_isprime64(r) && (q - 1) % r == 0 && powmod64(2, (q - 1) / r, q) != 1
}

/// For P+1 with seed P: (P²−4 | q) = +1, so the group is F_q^* and V_k(P) = x^k + x^-k with
/// x of order dividing q−1; r | ord(x) iff V_{(q−1)/r}(P) != 2.
pub fn safe_for_pp1(q: u64, r: u64, seed: u64) -> bool {
    if !(q > 2 && ref_isprime64(q) && ref_isprime64(r) && (q - 1) % r == 0) {
        return false;
    }
    let s = seed % q;
    let disc = (mulmod64(s, s, q) + q - 4 % q) % q;
    super::int::jacobi64(disc, q) == 1 && lucas_v(s, (q - 1) / r, q) != 2 % q
}

pub fn safe_cofactors() -> &'static [SafeCofactor] {
    static POOL: OnceLock<Vec<SafeCofactor>> = OnceLock::new();
    POOL.get_or_init(|| {
        let mut rng = SplitMix(0xC16_C0FAC7);
        let mut out = vec![];
        while out.len() < 48 {
            let rb = 50 + (out.len() as u32 % 5);
            let r = super::int::prime64(rb, &mut rng);
            let kmax = (1u64 << 61) / r;
            let mut k = 1 + rng.below(kmax.max(2) - 1);
            for _ in 0..2000 {
                let q = 2 * k * r + 1;
                if q < (1 << 62) && safe_for_pm1(q, r) {
                    out.push(SafeCofactor { q, r });
                    break;
                }
                k = if k >= kmax { 1 } else { k + 1 };
            }
        }
        out
    })
}

/// Large never-caught cofactor q = 2·k·r + 1 of exactly `bits` bits (100..=420) where
/// r = `certified_prime(rbits, ridx)` has more than half of the bits of q (Pocklington:
/// q is proven prime by `pocklington_check(q, r)`), and r | ord_q(2).
#[derive(Clone, Copy, Debug)]
pub struct BigCofactor {
    pub q: U1024,
    pub r: U1024,
    pub rbits: u32,
    pub ridx: u32,
}

pub fn verify_big_cofactor(q: &U1024, r: &U1024) -> bool {
    if !pocklington_check(q, r) {
        return false;
    }
    let e = (*q - U1024::ONE) / *r;
    // 2^((q-1)/r) != 1 mod q; q < 2^512 so products fit in 1024 bits
    q.bits() <= 500 && !powmod::<16, 16>(&U1024::from(2u64), &e, q).is_one()
}

pub fn big_cofactor(bits: u32, idx: u32) -> BigCofactor {
    assert!((100..=420).contains(&bits));
    let rbits = bits / 2 + 8;
    let r = super::int::certified_prime(rbits, idx);
    let mut rng = SplitMix(0xB16C0F ^ ((bits as u64) << 20) ^ idx as u64);
    let kbits = bits - rbits - 1;
    loop {
        // k with exactly kbits bits so that 2kr+1 has `bits` bits most of the time
        let k: U1024 = rng.bits::<16>(kbits) | (U1024::ONE << (kbits - 1));
        let q = ((k * r) << 1u32) + U1024::ONE;
        if q.bits() != bits {
            continue;
        }
        if [3u64, 5, 7, 11, 13, 17, 19, 23, 29, 31, 37, 41, 43, 47]
            .iter()
            .any(|&s| (q % U1024::from(s)).is_zero())
        {
            continue;
        }
        // cheap Fermat filter before the certificate
        let qm1 = q - U1024::ONE;
        if !powmod::<16, 16>(&U1024::from(2u64), &qm1, &q).is_one() {
            continue;
        }
        if verify_big_cofactor(&q, &r) {
            return BigCofactor { q, r, rbits, ridx: idx };
        }
    }
}

/// Prime certificate for p < 2^500 with the *complete* factorisation of p−1 known
/// (Lucas/Pocklington with F = p−1): for every prime f | p−1 some base a has
/// a^(p−1) = 1 and gcd(a^((p−1)/f) − 1, p) = 1.
pub fn lucas_certified(p: &U1024, prime_factors: &[U1024]) -> bool {
    if p.bits() > 500 || !p.bit(0) {
        return false;
    }
    let pm1 = *p - U1024::ONE;
    // the factor list must be complete
    let mut rest = pm1;
    for f in prime_factors {
        if f.is_zero() || f.is_one() {
            return false;
        }
        while (rest % *f).is_zero() {
            rest /= *f;
        }
    }
    if !rest.is_one() {
        return false;
    }
    'f: for f in prime_factors {
        for a in [2u64, 3, 5, 7, 11, 13, 17, 19] {
            let a = U1024::from(a);
            if !powmod::<16, 16>(&a, &pm1, p).is_one() {
                return false;
            }
            let b = powmod::<16, 16>(&a, &(pm1 / *f), p);
            let bm1 = if b.is_zero() { *p - U1024::ONE } else { b - U1024::ONE };
            if super::int::ref_gcd(&bm1, p).is_one() {
                continue 'f;
            }
        }
        return false;
    }
    true
}

pub fn u1024(x: u128) -> U1024 {
    BUint::<16>::from(x)
}

pub fn self_test() -> Result<(), String> {
    if next_prime(1) != 2 || next_prime(2) != 3 || next_prime(13) != 17 || prev_prime(17) != 13 || prev_prime(3) != 2 {
        return Err("smooth: next/prev prime".into());
    }
    if prime_at_most(17) != 17 || prime_at_most(18) != 17 || prev_prime(2) != 0 {
        return Err("smooth: prime_at_most".into());
    }
    if phi(510) != 128 || phi(2310) != 480 || phi(66) != 20 || phi(2852850) != 518400 {
        return Err("smooth: phi".into());
    }
    // V_k(P) = x^k + x^-k with P = x + 1/x: x = 3 mod 1000003, P = 3 + 3^-1
    let n = 1_000_003u64;
    let x = 3u64;
    let xi = powmod64(x, n - 2, n);
    let pp = (x + xi) % n;
    for k in [0u64, 1, 2, 3, 7, 64, 1000, 999_983, u32::MAX as u64 + 5] {
        let want = (powmod64(x, k % (n - 1), n) + powmod64(xi, k % (n - 1), n)) % n;
        if lucas_v(pp, k, n) != want {
            return Err(format!("smooth: lucas_v k={}", k));
        }
        if lucas_v_big(&U1024::from(pp), k, &U1024::from(n)) != U1024::from(want) {
            return Err(format!("smooth: lucas_v_big k={}", k));
        }
    }
    // the repository's own example: p = 60183678025727 = 2^22·3^15 − 1, seed 3 has order p+1
    let p = 60183678025727u64;
    if lucas_v(3, p + 1, p) != 2 || lucas_v(3, p - 1, p) == 2 {
        return Err("smooth: lucas_v on 2^22 3^15 - 1".into());
    }
    for c in safe_cofactors().iter().take(4) {
        if !safe_for_pm1(c.q, c.r) {
            return Err("smooth: safe cofactor".into());
        }
    }
    let p61 = U1024::from((1u64 << 61) - 1);
    let fs: Vec<U1024> = small_factors((1u64 << 61) - 2).iter().map(|f| U1024::from(f.0)).collect();
    if !lucas_certified(&p61, &fs) || lucas_certified(&U1024::from(561u64 * 1_000_003), &[U1024::from(2u64)]) {
        return Err("smooth: lucas_certified".into());
    }
    Ok(())
}
