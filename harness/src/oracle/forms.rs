//! Positive definite binary quadratic forms (DESIGN.md 1.6).  Nothing here calls yamaquasi.
//!
//! A form is a triple (a, b, c) with a > 0 and b^2 - 4ac = D < 0.  The arithmetic is generic
//! over a signed integer type `T`: `i128` for |D| < 2^40 (fast: exhaustive sweeps) and the
//! 512-bit `bnum` integer `Wide` for discriminants up to 130 bits.
//!
//! * Gauss reduction (`reduce`): the unique reduced representative (|b| <= a <= c, b >= 0
//!   when |b| = a or a = c) of a class.
//! * Composition (`compose`): Dirichlet/Arndt composition
//!       g = gcd(a1, a2, (b1+b2)/2) = u a1 + v a2 + w (b1+b2)/2
//!       a3 = a1 a2 / g^2
//!       b3 = (u a1 b2 + v a2 b1 + w (b1 b2 + D)/2) / g   (mod 2 a3)
//!       c3 = (b3^2 - D) / (4 a3)
//!   Every composition verifies its own result: all divisions are exact, 4 a3 | b3^2 - D,
//!   b3 = b1 (mod 2 a1/g), b3 = b2 (mod 2 a2/g) and g*b3 satisfies the defining congruence.
//!   These conditions characterise the composite class, so an arithmetic slip (or a silent
//!   wrap of the integer type) is reported as an `Err`, never as a wrong class.
//! * `prime_form`: the form (p, b, c) with b^2 = D (mod 4p), 0 <= b <= p, b = D (mod 2): PARI's
//!   `qfbprimeform` normalisation, which `scripts/classgroup/verify.py` (the repository's own
//!   checker of `relations.sieve`) uses and `fbase::Prime::b_plus` documents.
//! * class number by exhaustive enumeration of the reduced forms (`reduced_forms`, and
//!   `reduced_forms_sieved` which factors the values (b^2+|D|)/4 with a sieve);
//! * the isomorphism type of the class group from the numbers of elements killed by each
//!   prime power (`sylow_types`), element orders (`order_of`).

use std::collections::BTreeMap;
use std::fmt::{Debug, Display};
use std::ops::{Add, Div, Mul, Neg, Rem, Sub};

use bnum::cast::CastFrom;
use bnum::{BInt, BUint};

use crate::oracle::int::{factor_u64, jacobi64, ref_sieve, sqrt_mod_p64};

/// 512-bit signed integers: enough for composing reduced forms of discriminants up to 130 bits
/// (largest intermediate < 2^270).
pub type Wide = BInt<8>;

/// Largest |D| (in bits) accepted by the `Wide` instantiation.
pub const WIDE_MAX_BITS: u32 = 130;

pub trait Z:
    Copy
    + Ord
    + Debug
    + Display
    + Add<Output = Self>
    + Sub<Output = Self>
    + Mul<Output = Self>
    + Div<Output = Self>
    + Rem<Output = Self>
    + Neg<Output = Self>
    + From<i64>
{
    fn zero() -> Self {
        Self::from(0)
    }
    fn one() -> Self {
        Self::from(1)
    }
    fn is_zero(&self) -> bool {
        *self == Self::zero()
    }
    /// floor division and non-negative remainder for a positive modulus
    fn div_mod_floor(self, m: Self) -> (Self, Self) {
        debug_assert!(m > Self::zero());
        let q = self / m;
        let r = self % m;
        if r < Self::zero() {
            (q - Self::one(), r + m)
        } else {
            (q, r)
        }
    }
    fn modp(self, m: Self) -> Self {
        self.div_mod_floor(m).1
    }
    fn abs(self) -> Self {
        if self < Self::zero() {
            -self
        } else {
            self
        }
    }
    /// exact division; Err when the remainder is not zero
    fn exact_div(self, m: Self, what: &str) -> Result<Self, String> {
        if m.is_zero() {
            return Err(format!("division by zero in {}", what));
        }
        if !(self % m).is_zero() {
            return Err(format!("{}: {} is not a multiple of {}", what, self, m));
        }
        Ok(self / m)
    }
    /// value as i128 when it is small enough for the fast Euclid
    fn small(&self) -> Option<i128>;
    fn from_i128(x: i128) -> Self;
}

impl Z for i128 {
    fn small(&self) -> Option<i128> {
        if self.unsigned_abs() < 1u128 << 100 {
            Some(*self)
        } else {
            None
        }
    }
    fn from_i128(x: i128) -> Self {
        x
    }
}

impl Z for Wide {
    fn small(&self) -> Option<i128> {
        let m = self.unsigned_abs();
        if m.bits() <= 100 {
            let d = m.digits();
            let v = (d[0] as u128 | ((d[1] as u128) << 64)) as i128;
            Some(if self.is_negative() { -v } else { v })
        } else {
            None
        }
    }
    fn from_i128(x: i128) -> Self {
        Wide::cast_from(x)
    }
}

/// Textbook extended Euclid: (g, x, y) with x*a + y*b = g = gcd(|a|, |b|) >= 0.
pub fn egcd<T: Z>(a: T, b: T) -> (T, T, T) {
    if let (Some(sa), Some(sb)) = (a.small(), b.small()) {
        // same algorithm on native integers (cofactors are bounded by the operands)
        let (g, x, y) = egcd_plain::<i128>(sa, sb);
        return (T::from_i128(g), T::from_i128(x), T::from_i128(y));
    }
    egcd_plain(a, b)
}

fn egcd_plain<T: Z>(a: T, b: T) -> (T, T, T) {
    let (mut r0, mut r1) = (a, b);
    let (mut s0, mut s1) = (T::one(), T::zero());
    let (mut t0, mut t1) = (T::zero(), T::one());
    while !r1.is_zero() {
        let q = r0 / r1;
        let r2 = r0 - q * r1;
        r0 = r1;
        r1 = r2;
        let s2 = s0 - q * s1;
        s0 = s1;
        s1 = s2;
        let t2 = t0 - q * t1;
        t0 = t1;
        t1 = t2;
    }
    if r0 < T::zero() {
        (-r0, -s0, -t0)
    } else {
        (r0, s0, t0)
    }
}

#[derive(Clone, Copy, Debug, PartialEq, Eq, PartialOrd, Ord, Hash)]
pub struct Form<T> {
    pub a: T,
    pub b: T,
    pub c: T,
}

impl<T: Z> Form<T> {
    pub fn disc(&self) -> T {
        self.b * self.b - T::from(4) * self.a * self.c
    }
    pub fn inverse(&self) -> Form<T> {
        Form {
            a: self.a,
            b: -self.b,
            c: self.c,
        }
    }
    pub fn is_reduced(&self) -> bool {
        let (a, b, c) = (self.a, self.b, self.c);
        a > T::zero() && b.abs() <= a && a <= c && (b >= T::zero() || (b.abs() != a && a != c))
    }
}

/// The forms of one negative discriminant D (D = 0 or 1 mod 4).
#[derive(Clone, Copy, Debug)]
pub struct Disc<T> {
    pub d: T,
}

impl<T: Z> Disc<T> {
    pub fn new(d: T) -> Result<Disc<T>, String> {
        if d >= T::zero() {
            return Err(format!("discriminant {} is not negative", d));
        }
        let r = d.modp(T::from(4));
        if r != T::zero() && r != T::one() {
            return Err(format!("discriminant {} is not 0 or 1 mod 4", d));
        }
        Ok(Disc { d })
    }

    /// c = (b^2 - D) / (4a), exact.
    fn c_of(&self, a: T, b: T) -> Result<T, String> {
        (b * b - self.d).exact_div(T::from(4) * a, "c = (b^2-D)/4a")
    }

    pub fn principal(&self) -> Form<T> {
        let b = self.d.modp(T::from(2));
        Form {
            a: T::one(),
            b,
            c: (b * b - self.d) / T::from(4),
        }
    }

    pub fn is_principal(&self, f: &Form<T>) -> bool {
        *f == self.principal()
    }

    /// Form (a, b, .) of this discriminant, if 4a | b^2 - D.
    pub fn form(&self, a: T, b: T) -> Result<Form<T>, String> {
        if a <= T::zero() {
            return Err(format!("a = {} is not positive", a));
        }
        let c = self.c_of(a, b)?;
        Ok(Form { a, b, c })
    }

    /// Gauss reduction.
    pub fn reduce(&self, f: &Form<T>) -> Result<Form<T>, String> {
        if f.a <= T::zero() || f.disc() != self.d {
            return Err(format!("reduce: ({}, {}, {}) is not a positive form of discriminant {}", f.a, f.b, f.c, self.d));
        }
        let (mut a, mut b, mut c) = (f.a, f.b, f.c);
        let two = T::from(2);
        let mut steps = 0u32;
        loop {
            steps += 1;
            if steps > 10_000 {
                return Err("reduce: too many steps".into());
            }
            if !(b > -a && b <= a) {
                // b <- b - 2a*q with -a < b <= a
                let (q, _) = (a + b - T::one()).div_mod_floor(two * a);
                // choose q = floor((a + b - 1) / 2a): then b - 2aq in (-a, a]
                b = b - two * a * q;
                if !(b > -a && b <= a) {
                    return Err("reduce: normalisation failed".into());
                }
                c = self.c_of(a, b)?;
            }
            if a > c {
                std::mem::swap(&mut a, &mut c);
                b = -b;
                continue;
            }
            if a == c && b < T::zero() {
                b = -b;
            }
            break;
        }
        let r = Form { a, b, c };
        if !r.is_reduced() || r.disc() != self.d {
            return Err(format!("reduce: result ({}, {}, {}) is not reduced", a, b, c));
        }
        Ok(r)
    }

    /// Composition of two primitive forms of this discriminant (result reduced).
    pub fn compose(&self, f1: &Form<T>, f2: &Form<T>) -> Result<Form<T>, String> {
        let two = T::from(2);
        let (a1, b1, a2, b2) = (f1.a, f1.b, f2.a, f2.b);
        let s = (b1 + b2).exact_div(two, "(b1+b2)/2")?;
        // g1 = x a1 + y a2 ; g = t1 g1 + w s
        let (g1, x, y) = egcd(a1, a2);
        let (g, t1, w) = egcd(g1, s);
        if g <= T::zero() {
            return Err("compose: gcd is not positive".into());
        }
        let (u, v) = (t1 * x, t1 * y);
        if u * a1 + v * a2 + w * s != g {
            return Err("compose: Bezout identity failed".into());
        }
        let a3 = (a1 * a2).exact_div(g * g, "a1 a2 / g^2")?;
        let m = (b1 * b2 + self.d).exact_div(two, "(b1 b2 + D)/2")?;
        let num = u * a1 * b2 + v * a2 * b1 + w * m;
        let b3 = num.exact_div(g, "b3 numerator / g")?;
        let b3 = b3.modp(two * a3);
        let c3 = self.c_of(a3, b3)?;
        // defining congruences of the composite (Dirichlet): they pin b3 modulo 2 a3
        let m1 = two * a1.exact_div(g, "a1/g")?;
        let m2 = two * a2.exact_div(g, "a2/g")?;
        if !(b3 - b1).modp(m1).is_zero() || !(b3 - b2).modp(m2).is_zero() {
            return Err(format!("compose: b3 = {} violates b3 = b1 mod 2a1/g or b3 = b2 mod 2a2/g", b3));
        }
        // s * b3 = (D + b1 b2)/2  (mod 2 a3)   [third condition, needed when g > 1]
        if !(s * b3 - m).modp(two * a3).is_zero() {
            return Err("compose: third congruence failed".into());
        }
        let f3 = Form { a: a3, b: b3, c: c3 };
        if f3.disc() != self.d {
            return Err("compose: wrong discriminant".into());
        }
        self.reduce(&f3)
    }

    pub fn pow(&self, f: &Form<T>, mut e: u128) -> Result<Form<T>, String> {
        let mut res = self.principal();
        let mut sq = self.reduce(f)?;
        while e > 0 {
            if e & 1 == 1 {
                res = self.compose(&res, &sq)?;
            }
            e >>= 1;
            if e > 0 {
                sq = self.compose(&sq, &sq)?;
            }
        }
        Ok(res)
    }

    /// D mod p for a prime p < 2^63, as a non-negative residue.
    pub fn d_mod(&self, p: u64) -> u64 {
        let r = self.d.modp(T::from(p as i64));
        r.small().unwrap() as u64
    }

    /// Kronecker symbol (D / p) for a prime p.
    pub fn kronecker(&self, p: u64) -> i32 {
        if p == 2 {
            return match self.d_mod(8) {
                1 => 1,
                5 => -1,
                _ => 0,
            };
        }
        jacobi64(self.d_mod(p), p)
    }

    /// The prime form of norm p (p prime < 2^62) in PARI's normalisation: (p, b, c) with
    /// b^2 = D mod 4p, 0 <= b <= p, b = D mod 2.  None when p is inert.  Not reduced.
    pub fn prime_form(&self, p: u64) -> Result<Option<Form<T>>, String> {
        if p < 2 || p >= 1 << 62 {
            return Err(format!("prime_form: p = {} out of range", p));
        }
        let parity = self.d_mod(2);
        let b: u64 = if p == 2 {
            match self.d_mod(8) {
                0 => 0,
                1 => 1,
                4 => 2,
                _ => return Ok(None),
            }
        } else {
            let Some(r) = sqrt_mod_p64(self.d_mod(p), p) else {
                return Ok(None);
            };
            if r % 2 == parity {
                r
            } else {
                p - r
            }
        };
        let f = self.form(T::from(p as i64), T::from(b as i64))?;
        Ok(Some(f))
    }

    /// Product of prime forms: `tokens` are +p (the prime form) or -p (its inverse), the format
    /// of one line of `relations.sieve`.  Err(text) when a prime has no prime form.
    pub fn product_of_primes(&self, tokens: &[i64]) -> Result<Form<T>, String> {
        let mut acc = self.principal();
        for &t in tokens {
            let p = t.unsigned_abs();
            let Some(f) = self.prime_form(p)? else {
                return Err(format!("NOFORM {}", p));
            };
            let f = self.reduce(&f)?;
            let f = if t < 0 { self.reduce(&f.inverse())? } else { f };
            acc = self.compose(&acc, &f)?;
        }
        Ok(acc)
    }

    /// Order of the class of `f`, given a multiple `n` of it with its factorisation.
    pub fn order_of(&self, f: &Form<T>, n: u128, factors: &[(u64, u32)]) -> Result<u128, String> {
        let one = self.principal();
        if self.pow(f, n)? != one {
            return Err(format!("order_of: {} is not a multiple of the order", n));
        }
        let mut n = n;
        for &(p, _) in factors {
            while n % (p as u128) == 0 && self.pow(f, n / p as u128)? == one {
                n /= p as u128;
            }
        }
        Ok(n)
    }
}

// ---------------------------------------------------------------------------
// Fundamental discriminants

/// Is -dabs a fundamental discriminant?  (dabs = 3 mod 4 squarefree, or dabs = 4m with
/// m = 1, 2 mod 4 squarefree, i.e. D/4 = 2, 3 mod 4.)
pub fn is_fundamental_abs(dabs: u64) -> bool {
    if dabs < 3 {
        return false;
    }
    let sqfree = |n: u64| factor_u64(n).iter().all(|&(_, e)| e == 1);
    match dabs % 16 {
        3 | 7 | 11 | 15 => sqfree(dabs),
        // D = -4m, D/4 = -m = 2,3 mod 4  <=>  m = 2, 1 mod 4
        4 | 8 => sqfree(dabs / 4),
        // 12: m = 3 mod 4 (D/4 = 1 mod 4: not fundamental); 0: m = 0 mod 4
        _ => false,
    }
}

/// All fundamental discriminants with lo <= |D| < hi (ascending |D|), by a squarefree sieve.
pub fn fundamental_abs_range(lo: u64, hi: u64) -> Vec<u64> {
    let mut out = vec![];
    if hi <= lo {
        return out;
    }
    // squarefree sieve over [0, hi)
    let n = hi as usize;
    let mut sqfree = vec![true; n.max(1)];
    let mut p = 2usize;
    while p * p < n {
        let q = p * p;
        let mut k = q;
        while k < n {
            sqfree[k] = false;
            k += q;
        }
        p += 1;
    }
    for dabs in lo.max(3)..hi {
        let ok = match dabs % 4 {
            3 => sqfree[dabs as usize],
            0 => {
                let m = dabs / 4;
                (m % 4 == 1 || m % 4 == 2) && sqfree[m as usize]
            }
            _ => false,
        };
        if ok {
            out.push(dabs);
        }
    }
    out
}

// ---------------------------------------------------------------------------
// Class number and class group by enumeration (|D| < 2^40)

/// Enumerate the reduced primitive forms of discriminant -dabs.  For a fundamental
/// discriminant every form is primitive; for the general case a gcd filter is applied.
/// `collect = false` only counts.
pub fn reduced_forms(dabs: u64, collect: bool) -> (u64, Vec<Form<i128>>) {
    assert!(dabs % 4 == 0 || dabs % 4 == 3, "not a discriminant");
    assert!(dabs < 1 << 40);
    let mut count = 0u64;
    let mut list = vec![];
    let parity = dabs % 2;
    let mut b = parity;
    // |b| <= a <= c  =>  3 b^2 <= |D|
    while 3 * b * b <= dabs {
        let n = (b * b + dabs) / 4; // = a c
        let mut a = b.max(1);
        let small = n <= u32::MAX as u64;
        while a * a <= n {
            let divides = if small {
                (n as u32) % (a as u32) == 0
            } else {
                n % a == 0
            };
            if divides {
                let c = n / a;
                // primitive?
                if gcd3(a, b, c) == 1 {
                    if b == 0 || a == b || a == c {
                        count += 1;
                        if collect {
                            list.push(Form {
                                a: a as i128,
                                b: b as i128,
                                c: c as i128,
                            });
                        }
                    } else {
                        count += 2;
                        if collect {
                            list.push(Form {
                                a: a as i128,
                                b: b as i128,
                                c: c as i128,
                            });
                            list.push(Form {
                                a: a as i128,
                                b: -(b as i128),
                                c: c as i128,
                            });
                        }
                    }
                }
            }
            a += 1;
        }
        b += 2;
    }
    (count, list)
}

/// The same enumeration with the values n_b = (b^2 + |D|)/4 factored by a sieve over b
/// (p | n_b  <=>  b = +-sqrt(D) mod p for odd p), so that only the divisors of n_b are visited:
/// about sqrt(|D|) log log |D| operations instead of |D|/7.  Cross-checked against the plain
/// enumeration in the self-test.  |D| < 2^48.
pub fn reduced_forms_sieved(dabs: u64, collect: bool) -> (u64, Vec<Form<i128>>) {
    assert!(dabs % 4 == 0 || dabs % 4 == 3, "not a discriminant");
    assert!(dabs >= 3 && dabs < 1 << 48);
    let parity = dabs % 2;
    // largest b of the right parity with 3 b^2 <= |D|
    let mut bmax = crate::oracle::int::isqrt_u128((dabs / 3) as u128) as u64;
    while 3 * bmax * bmax > dabs {
        bmax -= 1;
    }
    while 3 * (bmax + 1) * (bmax + 1) <= dabs {
        bmax += 1;
    }
    if bmax % 2 != parity {
        if bmax == 0 {
            return (0, vec![]);
        }
        bmax -= 1;
    }
    let nidx = ((bmax - parity) / 2 + 1) as usize;
    let nmax = (bmax * bmax + dabs) / 4;
    let plimit = crate::oracle::int::isqrt_u128(nmax as u128) as u64 + 1;
    // odd primes with a square root of D
    let mut roots: Vec<(u64, u64)> = vec![];
    for p in ref_sieve(plimit + 1) {
        let p = p as u64;
        if p == 2 {
            continue;
        }
        let dm = (p - dabs % p) % p;
        if let Some(r) = sqrt_mod_p64(dm, p) {
            roots.push((p, r));
        }
    }
    const SEG: usize = 1 << 15;
    let mut count = 0u64;
    let mut list = vec![];
    let mut rem = vec![0u64; SEG];
    let mut facs: Vec<Vec<(u64, u32)>> = vec![vec![]; SEG];
    let mut divs: Vec<u64> = vec![];
    let mut seg_start = 0usize;
    while seg_start < nidx {
        let len = SEG.min(nidx - seg_start);
        for i in 0..len {
            let b = parity + 2 * (seg_start + i) as u64;
            let n = (b * b + dabs) / 4;
            facs[i].clear();
            let v = n.trailing_zeros();
            if v > 0 {
                facs[i].push((2, v));
            }
            rem[i] = n >> v;
        }
        for &(p, r0) in &roots {
            let rs = [r0, p - r0];
            let nroots = if r0 == 0 { 1 } else { 2 };
            for &r in &rs[..nroots] {
                let r = r % p;
                let b0 = if r % 2 == parity { r } else { r + p };
                let i0 = ((b0 - parity) / 2) as usize;
                let pu = p as usize;
                let first = if seg_start <= i0 { i0 } else { i0 + (seg_start - i0 + pu - 1) / pu * pu };
                let mut i = first;
                while i < seg_start + len {
                    let k = i - seg_start;
                    let mut e = 0;
                    while rem[k] % p == 0 {
                        rem[k] /= p;
                        e += 1;
                    }
                    assert!(e >= 1, "sieve: {} should divide n_b", p);
                    facs[k].push((p, e));
                    i += pu;
                }
            }
        }
        for i in 0..len {
            let b = parity + 2 * (seg_start + i) as u64;
            let n = (b * b + dabs) / 4;
            if rem[i] > 1 {
                // no prime factor <= sqrt(nmax) is left: the cofactor is prime
                facs[i].push((rem[i], 1));
            }
            divs.clear();
            divs.push(1);
            for &(p, e) in &facs[i] {
                let m = divs.len();
                let mut pk = 1u64;
                for _ in 0..e {
                    pk *= p;
                    for j in 0..m {
                        divs.push(divs[j] * pk);
                    }
                }
            }
            for &a in &divs {
                if a < b.max(1) || (a as u128) * (a as u128) > n as u128 {
                    continue;
                }
                let c = n / a;
                debug_assert!(a * c == n);
                if gcd3(a, b, c) != 1 {
                    continue;
                }
                let both = !(b == 0 || a == b || a == c);
                count += if both { 2 } else { 1 };
                if collect {
                    list.push(Form {
                        a: a as i128,
                        b: b as i128,
                        c: c as i128,
                    });
                    if both {
                        list.push(Form {
                            a: a as i128,
                            b: -(b as i128),
                            c: c as i128,
                        });
                    }
                }
            }
        }
        seg_start += len;
    }
    (count, list)
}

fn gcd3(a: u64, b: u64, c: u64) -> u64 {
    fn g(mut a: u64, mut b: u64) -> u64 {
        while b != 0 {
            let r = a % b;
            a = b;
            b = r;
        }
        a
    }
    g(g(a, b), c)
}

/// Isomorphism type of a finite abelian group, as a map prime -> partition (exponents of the
/// cyclic p-power factors, descending).  Two groups are isomorphic iff the maps are equal.
pub type GroupType = BTreeMap<u64, Vec<u32>>;

/// Type of the abstract group Z/d1 x Z/d2 x ... (any order, no divisibility assumed).
pub fn type_of_invariants(inv: &[u128]) -> Result<GroupType, String> {
    let mut t = GroupType::new();
    for &d in inv {
        if d == 0 {
            return Err("invariant 0".into());
        }
        if d > u64::MAX as u128 {
            return Err("invariant above 2^64: not supported by the exact oracle".into());
        }
        for (p, e) in factor_u64(d as u64) {
            t.entry(p).or_default().push(e);
        }
    }
    for v in t.values_mut() {
        v.sort_by(|a, b| b.cmp(a));
    }
    Ok(t)
}

/// Type of the class group of discriminant -dabs from the complete list of its elements:
/// for each prime p with p^2 | h the number of elements killed by p^k, k = 1.. (a prime with
/// p || h contributes the partition [1] without any computation).
pub fn class_group_type(dabs: u64, forms: &[Form<i128>]) -> Result<GroupType, String> {
    let h = forms.len() as u64;
    let dd = Disc::<i128>::new(-(dabs as i128))?;
    let one = dd.principal();
    let mut t = GroupType::new();
    for (p, e) in factor_u64(h) {
        if p == 1 {
            continue;
        }
        if e == 1 {
            t.insert(p, vec![1]);
            continue;
        }
        // killed[k] = #{x : p^(k+1) x = 0}, k = 0..e-1
        let mut killed = vec![0u64; e as usize];
        for f in forms {
            let mut x = *f;
            let mut k = 0usize;
            // smallest k with p^k x = 0 (k <= e), or none
            let mut ord_k = None;
            if x == one {
                ord_k = Some(0);
            } else {
                while k < e as usize {
                    x = dd.pow(&x, p as u128)?;
                    k += 1;
                    if x == one {
                        ord_k = Some(k);
                        break;
                    }
                }
            }
            if let Some(k0) = ord_k {
                for kk in k0.max(1)..=e as usize {
                    killed[kk - 1] += 1;
                }
            }
        }
        // killed[k-1] = p^(sum_i min(k, e_i)); the number of parts >= k is the increment
        let mut logs = vec![];
        for &n in &killed {
            let mut l = 0u32;
            let mut m = n;
            while m > 1 {
                if m % p != 0 {
                    return Err(format!("class_group_type: {} elements killed by a power of {}", n, p));
                }
                m /= p;
                l += 1;
            }
            logs.push(l);
        }
        if *logs.last().unwrap() != e {
            return Err(format!("class_group_type: Sylow-{} subgroup has order {}^{} instead of ^{}", p, p, logs.last().unwrap(), e));
        }
        // parts_ge[k] = number of cyclic factors with exponent >= k
        let mut parts_ge = vec![];
        let mut prev = 0;
        for &l in &logs {
            parts_ge.push(l - prev);
            prev = l;
        }
        let nparts = parts_ge[0] as usize;
        let mut parts = vec![0u32; nparts];
        for (k, &cnt) in parts_ge.iter().enumerate() {
            for part in parts.iter_mut().take(cnt as usize) {
                *part = k as u32 + 1;
            }
        }
        t.insert(p, parts);
    }
    Ok(t)
}

/// Order of the element with coordinates `c` in Z/d1 x Z/d2 x ...
pub fn order_of_coords(inv: &[u128], c: &[u128]) -> Option<u128> {
    if inv.len() != c.len() {
        return None;
    }
    let mut o = 1u128;
    for (&d, &x) in inv.iter().zip(c) {
        if d == 0 {
            return None;
        }
        let oi = d / gcd_u128(d, x % d);
        o = o / gcd_u128(o, oi) * oi;
    }
    Some(o)
}

pub fn gcd_u128(mut a: u128, mut b: u128) -> u128 {
    while b != 0 {
        let r = a % b;
        a = b;
        b = r;
    }
    a
}

// ---------------------------------------------------------------------------
// Analytic estimate (kit's own Euler product), used one-sidedly above the enumerable range

/// sqrt(|D|)/pi * prod_{p < bound} 1/(1 - (D|p)/p) for D < -4.
pub fn euler_estimate<T: Z>(dd: &Disc<T>, dabs_f64: f64, bound: u64) -> f64 {
    let mut logprod = 0f64;
    for p in ref_sieve(bound) {
        let chi = dd.kronecker(p as u64) as f64;
        logprod -= (1.0 - chi / p as f64).ln();
    }
    dabs_f64.sqrt() / std::f64::consts::PI * logprod.exp()
}

// ---------------------------------------------------------------------------
// Conversions

pub fn wide_from_u128(x: u128) -> Wide {
    Wide::cast_from(BUint::<8>::from(x))
}

pub fn wide_from_buint<const N: usize>(x: &BUint<N>) -> Wide {
    let mut d = [0u64; 8];
    let k = N.min(8);
    d[..k].copy_from_slice(&x.digits()[..k]);
    Wide::cast_from(BUint::<8>::from_digits(d))
}

/// Kronecker symbol (d/k) for a discriminant d (0 or 1 mod 4) and k >= 1.
pub fn kronecker_dk(d: i64, k: u64) -> i32 {
    let v = k.trailing_zeros();
    let k = k >> v;
    let mut t = 1;
    if v > 0 {
        let s = match d.rem_euclid(8) {
            1 | 7 => 1,
            3 | 5 => -1,
            _ => 0,
        };
        if s == 0 {
            return 0;
        }
        if v % 2 == 1 {
            t = s;
        }
    }
    if k == 1 {
        return t;
    }
    t * jacobi64(d.rem_euclid(k as i64) as u64, k)
}

// ---------------------------------------------------------------------------
// Self-test (known values; Err = the kit is broken, exit 3)

pub fn self_test() -> Result<(), String> {
    // class numbers of well-known discriminants
    for (dabs, h) in [
        (3u64, 1u64),
        (4, 1),
        (7, 1),
        (8, 1),
        (15, 2),
        (20, 2),
        (23, 3),
        (47, 5),
        (71, 7),
        (84, 4),
        (163, 1),
        (420, 8),
        (1428, 8),
        (3299, 27),
        (5460, 16),
        (10148, 60),
        (424708, 64),
        (1411012, 124),
        (2402548, 176),
    ] {
        if !is_fundamental_abs(dabs) {
            return Err(format!("forms: -{} should be fundamental", dabs));
        }
        let (n, forms) = reduced_forms(dabs, true);
        if n != h || forms.len() as u64 != h {
            return Err(format!("forms: h(-{}) = {} (expected {})", dabs, n, h));
        }
        for f in &forms {
            if !f.is_reduced() || f.disc() != -(dabs as i128) {
                return Err(format!("forms: bad reduced form {:?}", f));
            }
        }
    }
    for dabs in [12u64, 16, 27, 28, 44, 63, 64, 75, 99, 1, 2, 5] {
        if is_fundamental_abs(dabs) {
            return Err(format!("forms: -{} should not be fundamental", dabs));
        }
    }
    let fr = fundamental_abs_range(0, 3000);
    if fr.len() != 911 || fr.iter().any(|&d| !is_fundamental_abs(d)) || fr[..6] != [3, 4, 7, 8, 11, 15] {
        return Err(format!("forms: {} fundamental discriminants below 3000 (expected 911)", fr.len()));
    }
    // sieved enumeration == plain enumeration
    {
        let mut rng = crate::oracle::int::SplitMix(2024);
        let mut ds: Vec<u64> = fr.clone();
        ds.extend([10148u64, 424708, 1411012, 2402548, 103142932]);
        while ds.len() < fr.len() + 40 {
            let d = (1 << 18) + rng.below(1 << 24);
            if d % 4 == 0 || d % 4 == 3 {
                ds.push(d); // any discriminant, fundamental or not
            }
        }
        for dabs in ds {
            let (n1, mut l1) = reduced_forms(dabs, true);
            let (n2, mut l2) = reduced_forms_sieved(dabs, true);
            l1.sort();
            l2.sort();
            if n1 != n2 || l1 != l2 || n1 != l1.len() as u64 {
                return Err(format!("forms: sieved enumeration of -{} gives {} forms, plain enumeration {}", dabs, n2, n1));
            }
        }
        // a 40-bit value: the repository's README documents h(-672772578839) = 959482; the two
        // independent computations must agree
        let (n, _) = reduced_forms_sieved(672772578839, false);
        if n != 959482 {
            return Err(format!("forms: h(-672772578839) = {} by sieved enumeration", n));
        }
        // regression: divisors a >= 2^32 of n_b (a*a must not wrap); h(-4*217207758389) = 691154
        let (n, _) = reduced_forms_sieved(868831033556, false);
        if n != 691154 {
            return Err(format!("forms: h(-868831033556) = {} by sieved enumeration", n));
        }
    }
    // the reduced-form count against Dirichlet's class number formula
    //   h(D) = -(1/|D|) sum_{k=1}^{|D|-1} (D/k) k      (D < -4)
    // and the 2-rank of the class group against genus theory (number of prime divisors - 1)
    for &dabs in fr.iter().filter(|&&d| d > 4) {
        let d = -(dabs as i64);
        let mut sum: i64 = 0;
        for k in 1..dabs {
            sum += kronecker_dk(d, k) as i64 * k as i64;
        }
        let (count, list) = reduced_forms(dabs, true);
        if sum % dabs as i64 != 0 || -sum / dabs as i64 != count as i64 {
            return Err(format!("forms: h(-{}) = {} by enumeration but the class number formula gives {}/{}", dabs, count, -sum, dabs));
        }
        let t = factor_u64(dabs).len();
        let rank2 = class_group_type(dabs, &list)?.get(&2).map(|v| v.len()).unwrap_or(0);
        if rank2 != t - 1 {
            return Err(format!("forms: 2-rank of Cl(-{}) is {} but -{} has {} prime divisors", dabs, rank2, dabs, t));
        }
    }
    // group structures: -3299 -> Z/9 x Z/3 ; -5460 -> (Z/2)^4 ; -84 -> (Z/2)^2 ; -39 -> Z/4 ; -260 -> Z/2 x Z/4
    let gt = |dabs: u64| -> Result<GroupType, String> {
        let (_, forms) = reduced_forms(dabs, true);
        class_group_type(dabs, &forms)
    };
    let exp: [(u64, Vec<(u64, Vec<u32>)>); 6] = [
        (3299, vec![(3, vec![2, 1])]),
        (5460, vec![(2, vec![1, 1, 1, 1])]),
        (84, vec![(2, vec![1, 1])]),
        (39, vec![(2, vec![2])]),
        (260, vec![(2, vec![2, 1])]),
        (47, vec![(5, vec![1])]),
    ];
    for (dabs, want) in exp {
        let got = gt(dabs)?;
        let want: GroupType = want.into_iter().collect();
        if got != want {
            return Err(format!("forms: class group type of -{}: {:?} (expected {:?})", dabs, got, want));
        }
    }
    if type_of_invariants(&[9, 3])? != gt(3299)? || type_of_invariants(&[3, 9])? != gt(3299)? {
        return Err("forms: type_of_invariants".into());
    }
    if type_of_invariants(&[27])? == gt(3299)? || type_of_invariants(&[4, 2])? != gt(260)? || type_of_invariants(&[8])? == gt(260)? {
        return Err("forms: type_of_invariants (2)".into());
    }
    // group axioms on all elements of a few class groups, both instantiations
    for dabs in [23u64, 84, 3299, 5460, 10148] {
        let dd = Disc::<i128>::new(-(dabs as i128))?;
        let dw = Disc::<Wide>::new(-wide_from_u128(dabs as u128))?;
        let (h, forms) = reduced_forms(dabs, true);
        let one = dd.principal();
        if !forms.contains(&one) {
            return Err("forms: principal form is not in the list".into());
        }
        let fac = factor_u64(h);
        let mut rng = crate::oracle::int::SplitMix(dabs);
        for (i, f) in forms.iter().enumerate() {
            if dd.compose(f, &one)? != *f {
                return Err("forms: f * 1 != f".into());
            }
            if dd.compose(f, &dd.reduce(&f.inverse())?)? != one {
                return Err("forms: f * f^-1 != 1".into());
            }
            if dd.pow(f, h as u128)? != one {
                return Err("forms: f^h != 1".into());
            }
            let g = forms[rng.below(h) as usize];
            let k = forms[rng.below(h) as usize];
            let fg = dd.compose(f, &g)?;
            if fg != dd.compose(&g, f)? {
                return Err("forms: not commutative".into());
            }
            if !forms.contains(&fg) {
                return Err("forms: product is not in the list of reduced forms".into());
            }
            if dd.compose(&fg, &k)? != dd.compose(f, &dd.compose(&g, &k)?)? {
                return Err("forms: not associative".into());
            }
            if i % 7 == 0 {
                // the two instantiations agree
                let w = |x: &Form<i128>| Form {
                    a: Wide::from_i128(x.a),
                    b: Wide::from_i128(x.b),
                    c: Wide::from_i128(x.c),
                };
                let fgw = dw.compose(&w(f), &w(&g))?;
                if fgw != w(&fg) {
                    return Err("forms: i128 and 512-bit compositions differ".into());
                }
            }
            let o = dd.order_of(f, h as u128, &fac)?;
            if h as u128 % o != 0 || dd.pow(f, o)? != one {
                return Err("forms: order_of".into());
            }
        }
    }
    // prime forms: PARI's qfbprimeform values
    //   qfbprimeform(-23, 2) = (2, 1, 3); (-23, 3) = (3, 1, 2); (-23, 13) = (13, 5, 1)...
    let d23 = Disc::<i128>::new(-23)?;
    let pf = |dd: &Disc<i128>, p: u64| -> Result<Option<(i128, i128, i128)>, String> {
        Ok(dd.prime_form(p)?.map(|f| (f.a, f.b, f.c)))
    };
    if pf(&d23, 2)? != Some((2, 1, 3)) || pf(&d23, 3)? != Some((3, 1, 2)) || pf(&d23, 5)?.is_some() || pf(&d23, 23)? != Some((23, 23, 6)) {
        return Err("forms: prime forms of -23".into());
    }
    if pf(&d23, 13)? != Some((13, 9, 2)) {
        return Err("forms: prime form (-23, 13)".into());
    }
    let d84 = Disc::<i128>::new(-84)?;
    if pf(&d84, 2)? != Some((2, 2, 11)) || pf(&d84, 3)? != Some((3, 0, 7)) || pf(&d84, 5)? != Some((5, 4, 5)) {
        return Err(format!("forms: prime forms of -84: {:?} {:?} {:?}", pf(&d84, 2)?, pf(&d84, 3)?, pf(&d84, 5)?));
    }
    let d56 = Disc::<i128>::new(-56)?;
    if pf(&d56, 2)? != Some((2, 0, 7)) || pf(&d56, 3)? != Some((3, 2, 5)) {
        return Err("forms: prime forms of -56".into());
    }
    // [2]^3 = 1 in Cl(-23) with [2] = (2,1,3), [3] = (3,1,2) = [2]^-1:  2 * 3 ~ 1
    if !d23.is_principal(&d23.product_of_primes(&[2, 3])?) || d23.is_principal(&d23.product_of_primes(&[2, -3])?) {
        return Err("forms: [2][3] should be principal in Cl(-23), [2][3]^-1 not".into());
    }
    // a 128-bit discriminant: h divides nothing we know, but group axioms and the analytic
    // estimate must hold; the class number of -(2^127-1)... is not tabulated, so use the
    // repository-independent identity f^a * f^b = f^(a+b) and inverse.
    let big = Wide::from_i128(-((1i128 << 126) - 1 + (1i128 << 126))); // -(2^127-1), = 1 mod 4
    let db = Disc::<Wide>::new(big)?;
    let mut found = 0;
    for p in ref_sieve(200) {
        let Some(f) = db.prime_form(p as u64)? else {
            continue;
        };
        found += 1;
        let f = db.reduce(&f)?;
        let x = db.pow(&f, 123456789012345678901234567u128)?;
        let y = db.pow(&f, 987654321098765432109876u128)?;
        let z = db.pow(&f, 123456789012345678901234567u128 + 987654321098765432109876u128)?;
        if db.compose(&x, &y)? != z {
            return Err("forms: f^a f^b != f^(a+b) at 127 bits".into());
        }
        if !db.is_principal(&db.compose(&x, &db.reduce(&x.inverse())?)?) {
            return Err("forms: x x^-1 != 1 at 127 bits".into());
        }
    }
    if found < 10 {
        return Err("forms: too few split primes".into());
    }
    // Euler product against exact class numbers
    for dabs in [10148u64, 424708, 1411012, 999983] {
        if !is_fundamental_abs(dabs) {
            continue;
        }
        let (h, _) = reduced_forms(dabs, false);
        let dd = Disc::<i128>::new(-(dabs as i128))?;
        let est = euler_estimate(&dd, dabs as f64, 200_000);
        let ratio = h as f64 / est;
        if !(0.97..=1.03).contains(&ratio) {
            return Err(format!("forms: Euler estimate of h(-{}) = {:.2}, exact {}", dabs, est, h));
        }
    }
    Ok(())
}
