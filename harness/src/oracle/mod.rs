//! Oracle kit: independent reference implementations (DESIGN.md section 1).
pub mod int;
pub mod forms;
pub mod rel;
pub mod ecorder;
pub mod smooth;
pub mod ec;
pub mod linalg;
pub mod qpoly;
pub mod poly;
pub mod prim;
pub mod word;
pub mod primes;
pub mod sieve_model;
