//! Oracle kit: independent reference implementations (DESIGN.md section 1).
pub mod int;
