//! Reference elliptic-curve arithmetic used to *predict* ECM outcomes (DESIGN.md 1.5, C16).
//! Nothing here calls yamaquasi.
//!
//! A twisted Edwards curve  a·x² + y² = 1 + d·x²·y²  over F_p (p an odd prime, p < 2^62,
//! a·d·(a−d) ≠ 0) is handled in two independent ways:
//!
//! * `EdCurve::add` — the affine twisted Edwards addition law with explicit inversions
//!   (returns `None` at the exceptional points of incomplete curves);
//! * the birationally equivalent Montgomery model  B·v² = u³ + A·u² + u  with
//!   A = 2(a+d)/(a−d), B = 4/(a−d), (u,v) = ((1+y)/(1−y), (1+y)/((1−y)·x)), on which the
//!   chord-and-tangent law is complete after the usual case analysis.  Orders are computed
//!   there, so that incomplete Edwards curves (a non-square, or d a square) need no special care.
//!
//! `point_order` = baby-step/giant-step search for a multiple of the order in the Hasse
//! interval, followed by division by the prime factors of that multiple (trial division).
//! Trusted base: native u128 arithmetic.

use std::collections::HashMap;
use std::sync::OnceLock;

use super::int::{ref_isprime64, ref_sieve};

#[inline]
pub fn mulm(a: u64, b: u64, p: u64) -> u64 {
    ((a as u128 * b as u128) % p as u128) as u64
}
#[inline]
pub fn addm(a: u64, b: u64, p: u64) -> u64 {
    let s = a as u128 + b as u128;
    (s % p as u128) as u64
}
#[inline]
pub fn subm(a: u64, b: u64, p: u64) -> u64 {
    if a >= b {
        a - b
    } else {
        p - (b - a)
    }
}
#[inline]
pub fn negm(a: u64, p: u64) -> u64 {
    if a == 0 {
        0
    } else {
        p - a
    }
}

/// a^-1 mod p (extended Euclid on signed 128-bit integers); None if gcd(a, p) != 1.
pub fn invm(a: u64, p: u64) -> Option<u64> {
    let (mut r0, mut r1) = (p as i128, (a % p) as i128);
    let (mut t0, mut t1) = (0i128, 1i128);
    while r1 != 0 {
        let q = r0 / r1;
        (r0, r1) = (r1, r0 - q * r1);
        (t0, t1) = (t1, t0 - q * t1);
    }
    if r0 != 1 {
        return None;
    }
    let mut t = t0 % p as i128;
    if t < 0 {
        t += p as i128;
    }
    Some(t as u64)
}

pub fn powm(b: u64, mut e: u64, p: u64) -> u64 {
    let mut res = 1 % p;
    let mut sq = b % p;
    while e > 0 {
        if e & 1 == 1 {
            res = mulm(res, sq, p);
        }
        sq = mulm(sq, sq, p);
        e >>= 1;
    }
    res
}

fn isqrt64(n: u64) -> u64 {
    let mut r = (n as f64).sqrt() as u64;
    while (r as u128) * (r as u128) > n as u128 {
        r -= 1;
    }
    while ((r + 1) as u128) * ((r + 1) as u128) <= n as u128 {
        r += 1;
    }
    r
}

// ---------------------------------------------------------------------------
// Twisted Edwards, affine

#[derive(Clone, Copy, Debug, PartialEq, Eq)]
pub struct EdCurve {
    pub p: u64,
    pub a: u64,
    pub d: u64,
}

impl EdCurve {
    /// None if the curve is singular mod p.
    pub fn new(p: u64, a: u64, d: u64) -> Option<EdCurve> {
        let (a, d) = (a % p, d % p);
        if a == 0 || d == 0 || a == d || p < 5 {
            return None;
        }
        Some(EdCurve { p, a, d })
    }

    /// The curve with a = ±1 through the affine point (x, y), x·y ≠ 0:
    /// d = (a·x² + y² − 1) / (x²·y²).
    pub fn through_point(p: u64, a_minus_one: bool, x: u64, y: u64) -> Option<EdCurve> {
        let a = if a_minus_one { p - 1 } else { 1 };
        let x2 = mulm(x, x, p);
        let y2 = mulm(y, y, p);
        let den = invm(mulm(x2, y2, p), p)?;
        let num = subm(addm(mulm(a, x2, p), y2, p), 1, p);
        EdCurve::new(p, a, mulm(num, den, p))
    }

    pub fn on_curve(&self, x: u64, y: u64) -> bool {
        let p = self.p;
        let x2 = mulm(x, x, p);
        let y2 = mulm(y, y, p);
        addm(mulm(self.a, x2, p), y2, p) == addm(1, mulm(self.d, mulm(x2, y2, p), p), p)
    }

    /// Affine addition law; None when a denominator vanishes (exceptional pair on an
    /// incomplete curve: the sum is a point at infinity of the projective closure).
    pub fn add(&self, p1: (u64, u64), p2: (u64, u64)) -> Option<(u64, u64)> {
        let p = self.p;
        let (x1, y1) = p1;
        let (x2, y2) = p2;
        let t = mulm(self.d, mulm(mulm(x1, x2, p), mulm(y1, y2, p), p), p);
        let dx = invm(addm(1, t, p), p)?;
        let dy = invm(subm(1, t, p), p)?;
        let x3 = mulm(addm(mulm(x1, y2, p), mulm(y1, x2, p), p), dx, p);
        let y3 = mulm(subm(mulm(y1, y2, p), mulm(self.a, mulm(x1, x2, p), p), p), dy, p);
        Some((x3, y3))
    }

    pub fn mul(&self, mut k: u64, pt: (u64, u64)) -> Option<(u64, u64)> {
        let mut res = (0u64, 1u64);
        let mut sq = pt;
        while k > 0 {
            if k & 1 == 1 {
                res = self.add(res, sq)?;
            }
            k >>= 1;
            if k > 0 {
                sq = self.add(sq, sq)?;
            }
        }
        Some(res)
    }

    /// Montgomery model and the image of the affine point (x, y) (x ≠ 0, y ≠ 1).
    pub fn to_montgomery(&self, x: u64, y: u64) -> Option<(MontCurve, MPoint)> {
        let p = self.p;
        let amd = invm(subm(self.a, self.d, p), p)?;
        let ca = mulm(mulm(2, addm(self.a, self.d, p), p), amd, p);
        let cb = mulm(4, amd, p);
        let m = MontCurve { p, a: ca, b: cb };
        if x % p == 0 {
            // (0, 1) is the neutral element, (0, −1) the point (0, 0) of order 2
            return Some((m, if y % p == 1 { MPoint::Inf } else { MPoint::Aff(0, 0) }));
        }
        let den = invm(subm(1, y, p), p)?;
        let u = mulm(addm(1, y, p), den, p);
        let v = mulm(u, invm(x, p)?, p);
        Some((m, MPoint::Aff(u, v)))
    }
}

// ---------------------------------------------------------------------------
// Montgomery model, affine, complete by case analysis

#[derive(Clone, Copy, Debug, PartialEq, Eq)]
pub struct MontCurve {
    pub p: u64,
    pub a: u64,
    pub b: u64,
}

#[derive(Clone, Copy, Debug, PartialEq, Eq)]
pub enum MPoint {
    Inf,
    Aff(u64, u64),
}

impl MontCurve {
    pub fn on_curve(&self, pt: &MPoint) -> bool {
        match *pt {
            MPoint::Inf => true,
            MPoint::Aff(u, v) => {
                let p = self.p;
                let u2 = mulm(u, u, p);
                let rhs = addm(addm(mulm(u2, u, p), mulm(self.a, u2, p), p), u, p);
                mulm(self.b, mulm(v, v, p), p) == rhs
            }
        }
    }

    pub fn neg(&self, pt: &MPoint) -> MPoint {
        match *pt {
            MPoint::Inf => MPoint::Inf,
            MPoint::Aff(u, v) => MPoint::Aff(u, negm(v, self.p)),
        }
    }

    pub fn add(&self, p1: &MPoint, p2: &MPoint) -> MPoint {
        let p = self.p;
        let (u1, v1, u2, v2) = match (*p1, *p2) {
            (MPoint::Inf, q) => return q,
            (q, MPoint::Inf) => return q,
            (MPoint::Aff(u1, v1), MPoint::Aff(u2, v2)) => (u1, v1, u2, v2),
        };
        let lambda = if u1 == u2 {
            if addm(v1, v2, p) == 0 {
                return MPoint::Inf;
            }
            // tangent: (3u² + 2Au + 1) / (2Bv)
            let num = addm(addm(mulm(3, mulm(u1, u1, p), p), mulm(mulm(2, self.a, p), u1, p), p), 1, p);
            let den = mulm(mulm(2, self.b, p), v1, p);
            match invm(den, p) {
                Some(i) => mulm(num, i, p),
                None => return MPoint::Inf,
            }
        } else {
            let den = invm(subm(u2, u1, p), p).expect("u2 != u1 mod a prime");
            mulm(subm(v2, v1, p), den, p)
        };
        let u3 = subm(subm(subm(mulm(self.b, mulm(lambda, lambda, p), p), self.a, p), u1, p), u2, p);
        let v3 = subm(mulm(lambda, subm(u1, u3, p), p), v1, p);
        MPoint::Aff(u3, v3)
    }

    pub fn mul(&self, mut k: u64, pt: &MPoint) -> MPoint {
        let mut res = MPoint::Inf;
        let mut sq = *pt;
        while k > 0 {
            if k & 1 == 1 {
                res = self.add(&res, &sq);
            }
            k >>= 1;
            if k > 0 {
                sq = self.add(&sq, &sq);
            }
        }
        res
    }

    /// Multiplication by a scalar given as little-endian 64-bit words.
    pub fn mul_words(&self, k: &[u64], pt: &MPoint) -> MPoint {
        let mut res = MPoint::Inf;
        for w in k.iter().rev() {
            for b in (0..64).rev() {
                res = self.add(&res, &res);
                if (w >> b) & 1 == 1 {
                    res = self.add(&res, pt);
                }
            }
        }
        res
    }
}

// ---------------------------------------------------------------------------
// Orders

fn small_primes() -> &'static [u32] {
    static P: OnceLock<Vec<u32>> = OnceLock::new();
    // enough to factor any integer below 2^42 by trial division
    P.get_or_init(|| ref_sieve(1 << 21))
}

/// Factorisation by trial division with the primes below 2^21; the remaining cofactor
/// (if > 1) is below 2^64 and is split further only if it is composite, by continuing
/// the trial division (never needed for arguments below 2^42).
pub fn factor_small(mut n: u64) -> Vec<(u64, u32)> {
    let mut out = vec![];
    for &q in small_primes() {
        let q = q as u64;
        if q * q > n {
            break;
        }
        if n % q == 0 {
            let mut e = 0;
            while n % q == 0 {
                n /= q;
                e += 1;
            }
            out.push((q, e));
        }
    }
    if n > 1 {
        if n < (1u64 << 42) || ref_isprime64(n) {
            out.push((n, 1));
        } else {
            // composite cofactor with both factors above 2^21
            let mut q = (1u64 << 21) | 1;
            while q * q <= n {
                if n % q == 0 {
                    let mut e = 0;
                    while n % q == 0 {
                        n /= q;
                        e += 1;
                    }
                    out.push((q, e));
                    if n > 1 && ref_isprime64(n) {
                        break;
                    }
                }
                q += 2;
            }
            if n > 1 {
                out.push((n, 1));
            }
        }
    }
    out
}

#[derive(Clone, Debug, PartialEq, Eq)]
pub struct OrderInfo {
    pub order: u64,
    pub factors: Vec<(u64, u32)>,
}

/// Exact order of `pt` from any positive multiple `m` of it.
pub fn order_from_multiple(c: &MontCurve, pt: &MPoint, m: u64) -> OrderInfo {
    debug_assert!(c.mul(m, pt) == MPoint::Inf);
    let mut ord = m;
    for (q, _) in factor_small(m) {
        while ord % q == 0 && c.mul(ord / q, pt) == MPoint::Inf {
            ord /= q;
        }
    }
    OrderInfo {
        order: ord,
        factors: factor_small(ord),
    }
}

/// Order of a point of E(F_p) (p prime, 5 <= p < 2^62) by BSGS in the Hasse interval.
pub fn point_order(c: &MontCurve, pt: &MPoint) -> OrderInfo {
    if *pt == MPoint::Inf {
        return OrderInfo { order: 1, factors: vec![] };
    }
    let p = c.p;
    let s = isqrt64(4 * p) + 1; // >= 2 sqrt(p)
    let lo = (p + 1).saturating_sub(s).max(1);
    let hi = p + 1 + s;
    let w = hi - lo;
    let m = isqrt64(w) + 1;
    // baby steps j·P, j = 1..=m
    let mut table: HashMap<u64, (u64, u64)> = HashMap::with_capacity(m as usize * 2);
    let mut cur = *pt;
    for j in 1..=m {
        match cur {
            MPoint::Inf => return order_from_multiple(c, pt, j),
            MPoint::Aff(u, v) => {
                if let Some(&(j1, v1)) = table.get(&u) {
                    // [j]P = ±[j1]P: a small multiple of the order is known
                    let mult = if v == v1 { j - j1 } else { j + j1 };
                    return order_from_multiple(c, pt, mult);
                }
                table.insert(u, (j, v));
            }
        }
        cur = c.add(&cur, pt);
    }
    // cur = (m+1)·P
    let step = c.mul(m, pt);
    let mut t = c.mul(lo, pt);
    let mut i = 0u64;
    loop {
        match t {
            MPoint::Inf => return order_from_multiple(c, pt, lo + i * m),
            MPoint::Aff(u, v) => {
                if let Some(&(j, vj)) = table.get(&u) {
                    // t = ±[j]P
                    let mult = if addm(v, vj, p) == 0 {
                        // t = −[j]P  =>  [lo + i·m + j]P = O
                        lo + i * m + j
                    } else {
                        // t = [j]P  =>  [lo + i·m − j]P = O
                        lo + i * m - j
                    };
                    if mult > 0 && c.mul(mult, pt) == MPoint::Inf {
                        return order_from_multiple(c, pt, mult);
                    }
                }
            }
        }
        t = c.add(&t, &step);
        i += 1;
        assert!(i * m <= w + 2 * m, "BSGS left the Hasse interval: p={} (not a prime, or not on the curve?)", p);
    }
}

/// Convenience: order of the point with projective coordinates (X:Y:Z) mod p on the
/// twisted Edwards curve with a = ±1 through it.  If `d_check` is given, the curve
/// parameter derived from the point must equal it mod p.
/// Returns None when no prediction is possible (Z ≡ 0, x·y ≡ 0 handled separately,
/// singular curve, parameter mismatch).
pub fn order_of_projective(
    p: u64,
    a_minus_one: bool,
    xyz: (u64, u64, u64),
    d_check: Option<u64>,
) -> Option<(EdCurve, OrderInfo)> {
    let zi = invm(xyz.2 % p, p)?;
    let x = mulm(xyz.0 % p, zi, p);
    let y = mulm(xyz.1 % p, zi, p);
    if x == 0 || y == 0 {
        // torsion point of order <= 4 on every such curve; the curve is not determined
        return None;
    }
    let c = match d_check {
        Some(d) => {
            let a = if a_minus_one { p - 1 } else { 1 };
            let c = EdCurve::new(p, a, d % p)?;
            if !c.on_curve(x, y) {
                return None;
            }
            c
        }
        None => EdCurve::through_point(p, a_minus_one, x, y)?,
    };
    let (m, g) = c.to_montgomery(x, y)?;
    if !m.on_curve(&g) {
        return None;
    }
    Some((c, point_order(&m, &g)))
}

/// Kit self-test for this file.
pub fn self_test() -> Result<(), String> {
    // 1. brute-force group orders for small primes, complete and incomplete curves
    for &p in &[101u64, 103, 211, 223] {
        for (a, d) in [(p - 1, 3u64), (p - 1, 5), (1, 7), (1, 11), (p - 1, 2), (1, 2)] {
            let Some(c) = EdCurve::new(p, a, d) else { continue };
            // all affine Edwards points
            let mut pts = vec![];
            for x in 0..p {
                for y in 0..p {
                    if c.on_curve(x, y) {
                        pts.push((x, y));
                    }
                }
            }
            let Some((m, _)) = c.to_montgomery(pts[pts.len() / 2].0, pts[pts.len() / 2].1) else {
                continue;
            };
            // group order on the Montgomery model by counting
            let mut n = 1u64;
            for u in 0..p {
                for v in 0..p {
                    if m.on_curve(&MPoint::Aff(u, v)) {
                        n += 1;
                    }
                }
            }
            let hasse = isqrt64(4 * p) + 1;
            if n + hasse < p + 1 || n > p + 1 + hasse {
                return Err(format!("ecorder: order {} outside the Hasse interval p={}", n, p));
            }
            for &(x, y) in pts.iter().step_by(7) {
                if x == 0 || y == 1 {
                    continue;
                }
                let Some((_, g)) = c.to_montgomery(x, y) else { continue };
                if !m.on_curve(&g) {
                    return Err(format!("ecorder: image not on the Montgomery model p={} a={} d={}", p, a, d));
                }
                let oi = point_order(&m, &g);
                if n % oi.order != 0 || m.mul(oi.order, &g) != MPoint::Inf {
                    return Err(format!("ecorder: order {} does not divide #E = {} (p={})", oi.order, n, p));
                }
                for (q, _) in &oi.factors {
                    if m.mul(oi.order / q, &g) == MPoint::Inf {
                        return Err("ecorder: order not minimal".into());
                    }
                }
                // Edwards law agrees with the Montgomery law wherever it is defined
                for k in [2u64, 3, 5, 12, oi.order - 1] {
                    if let Some((xk, yk)) = c.mul(k, (x, y)) {
                        let img = c.to_montgomery(xk, yk).map(|t| t.1);
                        let want = m.mul(k, &g);
                        if yk != 1 && xk != 0 && img != Some(want) {
                            return Err(format!("ecorder: Edwards/Montgomery mismatch p={} a={} d={} k={}", p, a, d, k));
                        }
                    }
                }
            }
        }
    }
    // 2. the repository's documented test curve (ecm128.rs test_curve): σ = 11,
    // G = (−11/60, 11529/12860), a = −1, #E(F_p) = 602768647071432 for p = 602768606663711
    let p = 602768606663711u64;
    let x = mulm(negm(11, p), invm(60, p).unwrap(), p);
    let y = mulm(11529, invm(12860, p).unwrap(), p);
    let Some((_, oi)) = order_of_projective(p, true, (x, y, 1), None) else {
        return Err("ecorder: test curve rejected".into());
    };
    if 602768647071432u64 % oi.order != 0 || oi.order < 1 << 20 {
        return Err(format!("ecorder: test curve order {} does not divide 602768647071432", oi.order));
    }
    let q = 957629686686973u64;
    let x = mulm(negm(11, q), invm(60, q).unwrap(), q);
    let y = mulm(11529, invm(12860, q).unwrap(), q);
    let Some((_, oi)) = order_of_projective(q, true, (x, y, 1), None) else {
        return Err("ecorder: test curve rejected".into());
    };
    if 957629727109848u64 % oi.order != 0 || oi.order < 1 << 20 {
        return Err(format!("ecorder: test curve order {} does not divide 957629727109848", oi.order));
    }
    if factor_small(602768647071432) != vec![(2, 3), (3, 2), (17, 1), (251, 1), (4679, 1), (419317, 1)] {
        return Err("ecorder: factor_small".into());
    }
    Ok(())
}
