//! Reference helpers for C08 (word-level division, inverse, roots).  Nothing here calls yamaquasi.
//! Trusted base: native integer arithmetic and bnum `+ - * / %`.

use bnum::BUint;
use std::sync::OnceLock;

use super::int::{ref_iroot, ref_sieve};

/// Left-to-right binary exponentiation (the library's pow_mod is right-to-left): b^e mod n,
/// n >= 1, requires (n-1)^2 < 2^(64N).
pub fn powmod_ltr<const N: usize>(b: &BUint<N>, e: &BUint<N>, n: &BUint<N>) -> BUint<N> {
    let one = BUint::<N>::ONE % *n;
    let b = *b % *n;
    let mut acc = one;
    for i in (0..e.bits()).rev() {
        acc = (acc * acc) % *n;
        if e.bit(i) {
            acc = (acc * b) % *n;
        }
    }
    acc
}

pub fn powmod_ltr64(b: u64, e: u64, n: u64) -> u64 {
    let n128 = n as u128;
    let b = b as u128 % n128;
    let mut acc = 1 % n128;
    for i in (0..64 - e.leading_zeros()).rev() {
        acc = acc * acc % n128;
        if (e >> i) & 1 == 1 {
            acc = acc * b % n128;
        }
    }
    acc as u64
}

/// All primes below 2^24 (the factor-base range), computed once.
pub fn primes24() -> &'static Vec<u32> {
    static P: OnceLock<Vec<u32>> = OnceLock::new();
    P.get_or_init(|| ref_sieve(1 << 24))
}

/// Index of the first prime >= x in `primes24` (len if none).
pub fn prime_index_at_least(x: u32) -> usize {
    primes24().partition_point(|&p| p < x)
}

/// Is n a perfect q-th power?  (bit-by-bit root, checked multiplication)
pub fn is_perfect_power_of<const N: usize>(n: &BUint<N>, q: u32) -> Option<BUint<N>> {
    let r = ref_iroot(n, q);
    let mut p = BUint::<N>::ONE;
    for _ in 0..q {
        p = p.checked_mul(r)?;
    }
    if p == *n {
        Some(r)
    } else {
        None
    }
}

/// x^k with overflow detection.
pub fn checked_pow<const N: usize>(x: &BUint<N>, k: u32) -> Option<BUint<N>> {
    let mut p = BUint::<N>::ONE;
    for _ in 0..k {
        p = p.checked_mul(*x)?;
    }
    Some(p)
}

pub const ROOT_PRIMES: [u32; 8] = [2, 3, 5, 7, 11, 13, 17, 19];

pub fn self_test() -> Result<(), String> {
    use super::int::{powmod64, U256};
    let mut r = super::int::SplitMix(7);
    for _ in 0..200 {
        let (b, e, n) = (r.next(), r.next() >> (r.next() % 64), (r.next() >> (r.next() % 40)) | 1);
        if powmod_ltr64(b, e, n) != powmod64(b, e, n) {
            return Err("powmod_ltr64".into());
        }
        let n2 = n >> 32 | 1;
        let x = powmod_ltr(&U256::from(b), &U256::from(e), &U256::from(n2));
        if x != U256::from(powmod64(b, e, n2)) {
            return Err("powmod_ltr".into());
        }
    }
    if powmod_ltr64(5, 0, 1) != 0 || powmod_ltr64(0, 0, 7) != 1 {
        return Err("powmod edge".into());
    }
    if primes24().len() != 1_077_871 {
        return Err(format!("pi(2^24) = {}", primes24().len()));
    }
    let n = U256::from(3u64).pow(100);
    if is_perfect_power_of(&n, 5) != Some(U256::from(3u64).pow(20)) || is_perfect_power_of(&(n + U256::ONE), 2).is_some() {
        return Err("is_perfect_power_of".into());
    }
    Ok(())
}
