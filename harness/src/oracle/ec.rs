//! Reference arithmetic on twisted Edwards curves over prime fields (DESIGN.md 1.5).
//! Nothing here calls yamaquasi.  Trusted base: native u64/u128/i128 arithmetic.
//!
//! # Model
//!
//! `E_{a,d}: a x^2 + y^2 = 1 + d x^2 y^2` over `F_p`, `p` an odd prime below 2^62,
//! `a d (a - d) != 0` (non-singular).  The affine curve is not a group when `d` is a
//! square or `a` is a non-square (the ECM curves of yamaquasi have a square `d` on
//! purpose): the missing points are at infinity.  Points therefore live on the closure
//! of the curve in `P^1 x P^1` (Bernstein, Lange, "A complete set of addition laws for
//! incomplete Edwards curves", 2009): a point is `((X:Z),(Y:T))`, `x = X/Z`, `y = Y/T`,
//! with
//!
//! ```text
//!     a X^2 T^2 + Y^2 Z^2 = Z^2 T^2 + d X^2 Y^2 .
//! ```
//!
//! Points at infinity: `Z = 0` (then `y = +-sqrt(a/d)`, order 2) and `T = 0` (then
//! `x = +-1/sqrt(d)`, order 4).  Two addition laws are implemented literally from their
//! affine definitions, homogenised over `P^1 x P^1`:
//!
//! * the **original** (unified) law
//!   `x3 = (x1 y2 + y1 x2)/(1 + d x1 x2 y1 y2)`, `y3 = (y1 y2 - a x1 x2)/(1 - d x1 x2 y1 y2)`;
//! * the **dual** (dedicated) law of Hisil-Wong-Carter-Dawson
//!   `x3 = (x1 y1 + x2 y2)/(y1 y2 + a x1 x2)`, `y3 = (x1 y1 - x2 y2)/(x1 y2 - y1 x2)`.
//!
//! A law is *defined* for a coordinate when numerator and denominator do not vanish
//! together.  For every pair of points each coordinate is defined by at least one of the
//! two laws and they agree where both are defined; [`TwEd::add`] combines them into a
//! complete group law.  This fact is not taken on trust: [`self_test`] verifies it
//! exhaustively (closure, agreement, neutral, inverse, associativity, group order inside
//! the Hasse interval) on small fields for all four combinations of quadratic characters
//! of `a` and `d`.
//!
//! The explicit-formula implementations under test are instances of these two laws:
//! the projective/"unified" formulas (add-2007-bl, add-2008-bbjlp, dbl-2007-bl,
//! dbl-2008-bbjlp, dbl-2008-hwcd) compute the original law and produce `Z = 0` exactly
//! when one of its denominators vanishes; the extended "dedicated" formulas
//! (add-2008-hwcd-2, add-2008-hwcd-4) compute the dual law and produce `Z = 0` exactly
//! when one of its denominators vanishes (e.g. for `P = Q`).  [`TwEd::add_unified`] and
//! [`TwEd::add_dedicated`] return `None` in exactly those situations, which lets a check
//! decide *with the reference* whether an operation is outside the domain of a formula.
//!
//! Scalar multiplication is plain left-to-right double-and-add with the complete law;
//! the order of a point is found by baby-step/giant-step over the Hasse interval
//! followed by division by the prime factors of the multiple found (trial division:
//! intended for `p < 2^40` or so, correct for every `p < 2^62`).

use bnum::BUint;
use std::collections::HashMap;

use crate::oracle::int::{factor_u64, isqrt_u128, jacobi64, ref_isprime64};

/// Arithmetic in F_p, p odd, 3 <= p < 2^62 (so that sums of two residues fit in u64).
#[derive(Clone, Copy, Debug, PartialEq, Eq)]
pub struct Fp {
    pub p: u64,
}

impl Fp {
    pub fn new(p: u64) -> Fp {
        assert!(p >= 3 && p & 1 == 1 && p < (1u64 << 62), "Fp: modulus out of range");
        Fp { p }
    }
    #[inline]
    pub fn red(&self, x: u64) -> u64 {
        x % self.p
    }
    /// residue of a signed integer
    pub fn from_i128(&self, x: i128) -> u64 {
        x.rem_euclid(self.p as i128) as u64
    }
    /// residue of a multiword integer (words folded with u128 arithmetic)
    pub fn from_words(&self, w: &[u64]) -> u64 {
        let p = self.p as u128;
        let mut r: u128 = 0;
        for &d in w.iter().rev() {
            r = ((r << 64) | d as u128) % p;
        }
        r as u64
    }
    pub fn from_big<const N: usize>(&self, x: &BUint<N>) -> u64 {
        self.from_words(x.digits())
    }
    #[inline]
    pub fn add(&self, a: u64, b: u64) -> u64 {
        let s = a + b;
        if s >= self.p {
            s - self.p
        } else {
            s
        }
    }
    #[inline]
    pub fn sub(&self, a: u64, b: u64) -> u64 {
        if a >= b {
            a - b
        } else {
            a + self.p - b
        }
    }
    #[inline]
    pub fn neg(&self, a: u64) -> u64 {
        if a == 0 {
            0
        } else {
            self.p - a
        }
    }
    #[inline]
    pub fn mul(&self, a: u64, b: u64) -> u64 {
        ((a as u128 * b as u128) % self.p as u128) as u64
    }
    #[inline]
    pub fn sqr(&self, a: u64) -> u64 {
        self.mul(a, a)
    }
    pub fn pow(&self, b: u64, mut e: u64) -> u64 {
        let mut res = 1u64;
        let mut sq = b % self.p;
        while e > 0 {
            if e & 1 == 1 {
                res = self.mul(res, sq);
            }
            sq = self.mul(sq, sq);
            e >>= 1;
        }
        res
    }
    /// Explicit inversion (extended Euclid); None for 0 (or a non-unit if p is not prime).
    pub fn inv(&self, a: u64) -> Option<u64> {
        let (mut r0, mut r1) = (self.p as i128, (a % self.p) as i128);
        let (mut t0, mut t1) = (0i128, 1i128);
        while r1 != 0 {
            let q = r0 / r1;
            (r0, r1) = (r1, r0 - q * r1);
            (t0, t1) = (t1, t0 - q * t1);
        }
        if r0 != 1 {
            return None;
        }
        Some(t0.rem_euclid(self.p as i128) as u64)
    }
    pub fn div(&self, a: u64, b: u64) -> Option<u64> {
        self.inv(b).map(|i| self.mul(a, i))
    }
    pub fn is_square(&self, a: u64) -> bool {
        a % self.p == 0 || jacobi64(a % self.p, self.p) == 1
    }
}

/// A point of `P^1 x P^1` in homogeneous form `((x:z),(y:t))`, not normalised.
#[derive(Clone, Copy, Debug)]
pub struct H {
    pub x: u64,
    pub z: u64,
    pub y: u64,
    pub t: u64,
}

impl H {
    /// neither coordinate at infinity
    #[inline]
    pub fn is_finite(&self) -> bool {
        self.z != 0 && self.t != 0
    }
    /// a genuine element of P^1 x P^1
    pub fn is_wellformed(&self) -> bool {
        (self.x != 0 || self.z != 0) && (self.y != 0 || self.t != 0)
    }
}

/// An element of P^1(F_p), normalised.
#[derive(Clone, Copy, Debug, PartialEq, Eq, Hash, PartialOrd, Ord)]
pub enum Coord {
    Fin(u64),
    Inf,
}

/// A normalised point (canonical: usable as a hash key and for equality).
#[derive(Clone, Copy, Debug, PartialEq, Eq, Hash, PartialOrd, Ord)]
pub struct Pt {
    pub x: Coord,
    pub y: Coord,
}

impl Pt {
    pub fn affine(&self) -> Option<(u64, u64)> {
        match (self.x, self.y) {
            (Coord::Fin(x), Coord::Fin(y)) => Some((x, y)),
            _ => None,
        }
    }
    pub fn to_h(&self) -> H {
        let (x, z) = match self.x {
            Coord::Fin(x) => (x, 1),
            Coord::Inf => (1, 0),
        };
        let (y, t) = match self.y {
            Coord::Fin(y) => (y, 1),
            Coord::Inf => (1, 0),
        };
        H { x, z, y, t }
    }
}

/// The twisted Edwards curve `a x^2 + y^2 = 1 + d x^2 y^2` over F_p.
#[derive(Clone, Copy, Debug)]
pub struct TwEd {
    pub f: Fp,
    pub a: u64,
    pub d: u64,
}

impl TwEd {
    /// None if the curve is singular (`a d (a-d) = 0`).  `p` must be an odd prime < 2^62
    /// (primality is the caller's responsibility; `new_checked` verifies it).
    pub fn new(p: u64, a: u64, d: u64) -> Option<TwEd> {
        let f = Fp::new(p);
        let (a, d) = (a % p, d % p);
        if a == 0 || d == 0 || a == d {
            return None;
        }
        Some(TwEd { f, a, d })
    }

    pub fn new_checked(p: u64, a: u64, d: u64) -> Option<TwEd> {
        if !ref_isprime64(p) {
            return None;
        }
        Self::new(p, a, d)
    }

    /// The unique curve with the given `a` through the affine point (x, y), `x y != 0`:
    /// `d = (a x^2 + y^2 - 1)/(x^2 y^2)`.  None if `x y = 0` or the curve is singular.
    pub fn through_point(p: u64, a: u64, x: u64, y: u64) -> Option<(TwEd, H)> {
        let f = Fp::new(p);
        let (a, x, y) = (a % p, x % p, y % p);
        let (x2, y2) = (f.sqr(x), f.sqr(y));
        let num = f.sub(f.add(f.mul(a, x2), y2), 1);
        let d = f.div(num, f.mul(x2, y2))?;
        let c = Self::new(p, a, d)?;
        Some((c, H { x, z: 1, y, t: 1 }))
    }

    pub fn neutral(&self) -> H {
        H { x: 0, z: 1, y: 1, t: 1 }
    }

    pub fn affine(&self, x: u64, y: u64) -> H {
        H {
            x: x % self.f.p,
            z: 1,
            y: y % self.f.p,
            t: 1,
        }
    }

    /// Point given in projective-plane coordinates (X:Y:Z), i.e. x = X/Z, y = Y/Z.
    /// (For Z = 0 the result is not well-formed unless X, Y != 0: the projective plane
    /// cannot represent the points at infinity of the curve.)
    pub fn from_projective(&self, x: u64, y: u64, z: u64) -> H {
        H { x, z, y, t: z }
    }

    /// Point given in extended coordinates (X:Y:Z:T) on the quadric XY = ZT (Segre
    /// embedding of P^1 x P^1: x = X/Z = T/Y, y = Y/Z = T/X).  None if the quadruple is
    /// zero or not on the quadric.
    pub fn from_extended(&self, x: u64, y: u64, z: u64, t: u64) -> Option<H> {
        let f = &self.f;
        if f.mul(x, y) != f.mul(z, t) || (x == 0 && y == 0 && z == 0 && t == 0) {
            return None;
        }
        let (hx, hz) = if x != 0 || z != 0 { (x, z) } else { (t, y) };
        let (hy, ht) = if y != 0 || z != 0 { (y, z) } else { (t, x) };
        Some(H {
            x: hx,
            z: hz,
            y: hy,
            t: ht,
        })
    }

    pub fn on_curve(&self, p: &H) -> bool {
        if !p.is_wellformed() {
            return false;
        }
        let f = &self.f;
        let (x2, z2, y2, t2) = (f.sqr(p.x), f.sqr(p.z), f.sqr(p.y), f.sqr(p.t));
        let lhs = f.add(f.mul(self.a, f.mul(x2, t2)), f.mul(y2, z2));
        let rhs = f.add(f.mul(z2, t2), f.mul(self.d, f.mul(x2, y2)));
        lhs == rhs
    }

    pub fn neg(&self, p: &H) -> H {
        H {
            x: self.f.neg(p.x),
            ..*p
        }
    }

    /// Normalise (two explicit inversions at most).
    pub fn norm(&self, p: &H) -> Pt {
        debug_assert!(p.is_wellformed());
        let f = &self.f;
        let x = match f.inv(p.z) {
            Some(i) => Coord::Fin(f.mul(p.x, i)),
            None => Coord::Inf,
        };
        let y = match f.inv(p.t) {
            Some(i) => Coord::Fin(f.mul(p.y, i)),
            None => Coord::Inf,
        };
        Pt { x, y }
    }

    pub fn eq(&self, p: &H, q: &H) -> bool {
        let f = &self.f;
        f.mul(p.x, q.z) == f.mul(q.x, p.z) && f.mul(p.y, q.t) == f.mul(q.y, p.t)
    }

    pub fn is_neutral(&self, p: &H) -> bool {
        p.x == 0 && p.z != 0 && p.y == p.t && p.t != 0
    }

    /// Raw output of the original (unified) law; coordinates may be undefined (0:0).
    pub fn law_original(&self, p: &H, q: &H) -> H {
        let f = &self.f;
        let zt = f.mul(f.mul(p.z, q.z), f.mul(p.t, q.t));
        let xy = f.mul(self.d, f.mul(f.mul(p.x, q.x), f.mul(p.y, q.y)));
        let x = f.add(
            f.mul(f.mul(p.x, q.y), f.mul(q.z, p.t)),
            f.mul(f.mul(q.x, p.y), f.mul(p.z, q.t)),
        );
        let y = f.sub(
            f.mul(f.mul(p.y, q.y), f.mul(p.z, q.z)),
            f.mul(self.a, f.mul(f.mul(p.x, q.x), f.mul(p.t, q.t))),
        );
        H {
            x,
            z: f.add(zt, xy),
            y,
            t: f.sub(zt, xy),
        }
    }

    /// Raw output of the dual (dedicated) law; coordinates may be undefined (0:0).
    pub fn law_dual(&self, p: &H, q: &H) -> H {
        let f = &self.f;
        let a1 = f.mul(f.mul(p.x, p.y), f.mul(q.z, q.t));
        let a2 = f.mul(f.mul(q.x, q.y), f.mul(p.z, p.t));
        let z = f.add(
            f.mul(self.a, f.mul(f.mul(p.x, q.x), f.mul(p.t, q.t))),
            f.mul(f.mul(p.y, q.y), f.mul(p.z, q.z)),
        );
        let t = f.sub(
            f.mul(f.mul(p.x, q.y), f.mul(q.z, p.t)),
            f.mul(f.mul(q.x, p.y), f.mul(p.z, q.t)),
        );
        H {
            x: f.add(a1, a2),
            z,
            y: f.sub(a1, a2),
            t,
        }
    }

    /// Complete addition: each coordinate from the original law when it defines it,
    /// otherwise from the dual law.  Panics if neither law defines a coordinate (cannot
    /// happen for points of a non-singular curve; exhaustively verified by `self_test`).
    pub fn add(&self, p: &H, q: &H) -> H {
        let o = self.law_original(p, q);
        if (o.x != 0 || o.z != 0) && (o.y != 0 || o.t != 0) {
            return o;
        }
        let u = self.law_dual(p, q);
        let (x, z) = if o.x != 0 || o.z != 0 { (o.x, o.z) } else { (u.x, u.z) };
        let (y, t) = if o.y != 0 || o.t != 0 { (o.y, o.t) } else { (u.y, u.t) };
        let r = H { x, z, y, t };
        assert!(
            r.is_wellformed(),
            "oracle::ec: no addition law defined (p={}, a={}, d={}, P={:?}, Q={:?})",
            self.f.p,
            self.a,
            self.d,
            p,
            q
        );
        r
    }

    pub fn double(&self, p: &H) -> H {
        self.add(p, p)
    }

    pub fn sub(&self, p: &H, q: &H) -> H {
        self.add(p, &self.neg(q))
    }

    /// What a *unified* explicit formula (original law in projective-plane or extended
    /// coordinates) computes: Some(P+Q) iff both operands are finite and both
    /// denominators `1 +- d x1 x2 y1 y2` are non-zero (then the sum is finite).  Valid for
    /// P = Q (doubling formulas).
    pub fn add_unified(&self, p: &H, q: &H) -> Option<H> {
        if !p.is_finite() || !q.is_finite() {
            return None;
        }
        let r = self.law_original(p, q);
        if r.is_finite() {
            Some(r)
        } else {
            None
        }
    }

    /// What a *dedicated* explicit formula (dual law, add-2008-hwcd-2/-4) computes:
    /// Some(P+Q) iff both operands are finite and both denominators `y1 y2 + a x1 x2`,
    /// `x1 y2 - y1 x2` are non-zero (in particular P != Q).
    pub fn add_dedicated(&self, p: &H, q: &H) -> Option<H> {
        if !p.is_finite() || !q.is_finite() {
            return None;
        }
        let r = self.law_dual(p, q);
        if r.is_finite() {
            Some(r)
        } else {
            None
        }
    }

    /// k P by left-to-right double-and-add (complete law).
    pub fn mul(&self, k: u128, p: &H) -> H {
        let mut r = self.neutral();
        let nb = 128 - k.leading_zeros();
        for i in (0..nb).rev() {
            r = self.double(&r);
            if (k >> i) & 1 == 1 {
                r = self.add(&r, p);
            }
        }
        r
    }

    pub fn mul_big<const N: usize>(&self, k: &BUint<N>, p: &H) -> H {
        let mut r = self.neutral();
        for i in (0..k.bits()).rev() {
            r = self.double(&r);
            if k.bit(i) {
                r = self.add(&r, p);
            }
        }
        r
    }

    /// Hasse interval [p + 1 - 2 sqrt p, p + 1 + 2 sqrt p] (integer bounds, slightly wide).
    pub fn hasse_interval(&self) -> (u64, u64) {
        let p = self.f.p;
        let s = isqrt_u128(4 * p as u128) as u64 + 1;
        ((p + 1).saturating_sub(s).max(1), p + 1 + s)
    }

    /// Some M in the Hasse interval with M P = O (baby-step/giant-step; the group order is
    /// such an M, so one always exists).
    pub fn order_multiple(&self, p: &H) -> u64 {
        let (lo, hi) = self.hasse_interval();
        let w = hi - lo + 1;
        let m = (isqrt_u128(w as u128) as u64 + 1).max(1);
        // baby steps: j P -> j  (smallest j kept)
        let mut table: HashMap<Pt, u64> = HashMap::with_capacity(m as usize + 1);
        let mut b = self.neutral();
        for j in 0..m {
            table.entry(self.norm(&b)).or_insert(j);
            b = self.add(&b, p);
        }
        // b = m P now; giant steps: lo P + i m P == -(j P)  =>  (lo + i m + j) P = O
        let step = b;
        let mut g = self.mul(lo as u128, p);
        let mut i = 0u64;
        loop {
            let key = self.norm(&self.neg(&g));
            if let Some(&j) = table.get(&key) {
                let cand = lo + i * m + j;
                if cand > 0 {
                    debug_assert!(self.is_neutral(&self.mul(cand as u128, p)));
                    return cand;
                }
            }
            g = self.add(&g, &step);
            i += 1;
            assert!(
                i * m <= w + m,
                "oracle::ec: no multiple of the order in the Hasse interval (p={} not prime, or point not on curve?)",
                self.f.p
            );
        }
    }

    /// Exact order of the point.
    pub fn point_order(&self, p: &H) -> u64 {
        let mut ord = self.order_multiple(p);
        for (l, e) in factor_u64(ord) {
            for _ in 0..e {
                if self.is_neutral(&self.mul((ord / l) as u128, p)) {
                    ord /= l;
                } else {
                    break;
                }
            }
        }
        ord
    }

    /// All points of the closure (small p only: O(p) work).
    pub fn all_points(&self) -> Vec<H> {
        let f = &self.f;
        let p = f.p;
        let mut out = vec![];
        // affine: for each x solve y^2 (1 - d x^2) = 1 - a x^2
        let mut sqrt: HashMap<u64, Vec<u64>> = HashMap::new();
        for y in 0..p {
            sqrt.entry(f.sqr(y)).or_default().push(y);
        }
        for x in 0..p {
            let x2 = f.sqr(x);
            let den = f.sub(1, f.mul(self.d, x2));
            let num = f.sub(1, f.mul(self.a, x2));
            if den == 0 {
                // num != 0 on a non-singular curve: y = infinity
                if num != 0 {
                    out.push(H { x, z: 1, y: 1, t: 0 });
                }
                continue;
            }
            let y2 = f.mul(num, f.inv(den).unwrap());
            if let Some(ys) = sqrt.get(&y2) {
                for &y in ys {
                    out.push(H { x, z: 1, y, t: 1 });
                }
            }
        }
        // x = infinity: a T^2 = d Y^2
        let ad = f.mul(self.a, f.inv(self.d).unwrap());
        if let Some(ys) = sqrt.get(&ad) {
            for &y in ys {
                out.push(H { x: 1, z: 0, y, t: 1 });
            }
        }
        out
    }
}

/// Exhaustive verification of the reference on small fields.  Err(text) = the kit is
/// broken (harness exit code 3).
pub fn self_test() -> Result<(), String> {
    // (p, a, d) covering all quadratic characters of a and d, a = +-1 and general a
    let mut curves: Vec<(u64, u64, u64)> = vec![];
    for p in [5u64, 7, 11, 13, 17, 19, 23, 29, 31, 37, 41, 43] {
        let f = Fp::new(p);
        let mut seen = [[0u32; 2]; 2];
        for a in [1, p - 1, 2, 3] {
            for d in 2..p {
                if a % p == d || a % p == 0 {
                    continue;
                }
                let (sa, sd) = (f.is_square(a) as usize, f.is_square(d) as usize);
                if seen[sa][sd] < 2 {
                    seen[sa][sd] += 1;
                    curves.push((p, a % p, d));
                }
            }
        }
    }
    let mut classes = [[0u32; 2]; 2];
    for &(p, a, d) in &curves {
        let c = TwEd::new(p, a, d).ok_or("singular test curve")?;
        let f = c.f;
        classes[f.is_square(a) as usize][f.is_square(d) as usize] += 1;
        let pts = c.all_points();
        let n = pts.len() as u64;
        let (lo, hi) = c.hasse_interval();
        if n < lo || n > hi {
            return Err(format!("ec: #E({},{},{}) = {} outside the Hasse interval", p, a, d, n));
        }
        for pt in &pts {
            if !c.on_curve(pt) {
                return Err(format!("ec: enumerated point not on curve {:?}", (p, a, d, pt)));
            }
        }
        let o = c.neutral();
        let norm: Vec<Pt> = pts.iter().map(|x| c.norm(x)).collect();
        let set: std::collections::HashSet<Pt> = norm.iter().cloned().collect();
        if set.len() != pts.len() {
            return Err("ec: duplicate points".into());
        }
        for (i, p1) in pts.iter().enumerate() {
            if c.norm(&c.add(p1, &o)) != norm[i] || !c.is_neutral(&c.add(p1, &c.neg(p1))) {
                return Err(format!("ec: neutral/inverse law fails on {:?}", (p, a, d, p1)));
            }
            for p2 in pts.iter() {
                let lo_ = c.law_original(p1, p2);
                let ld = c.law_dual(p1, p2);
                // per coordinate: at least one law defined, agreement when both are
                let (ox, dx) = (lo_.x != 0 || lo_.z != 0, ld.x != 0 || ld.z != 0);
                let (oy, dy) = (lo_.y != 0 || lo_.t != 0, ld.y != 0 || ld.t != 0);
                if !(ox || dx) || !(oy || dy) {
                    return Err(format!("ec: no law defined for {:?}", (p, a, d, p1, p2)));
                }
                if ox && dx && f.mul(lo_.x, ld.z) != f.mul(ld.x, lo_.z) {
                    return Err(format!("ec: laws disagree (x) for {:?}", (p, a, d, p1, p2)));
                }
                if oy && dy && f.mul(lo_.y, ld.t) != f.mul(ld.y, lo_.t) {
                    return Err(format!("ec: laws disagree (y) for {:?}", (p, a, d, p1, p2)));
                }
                let s = c.add(p1, p2);
                if !c.on_curve(&s) || !set.contains(&c.norm(&s)) {
                    return Err(format!("ec: sum not on curve for {:?}", (p, a, d, p1, p2)));
                }
                if c.norm(&s) != c.norm(&c.add(p2, p1)) {
                    return Err("ec: not commutative".into());
                }
                // the dedicated law must be undefined for doubling, the unified one defined
                // exactly when the sum is finite and not a 'hidden' failure
                if let Some(u) = c.add_unified(p1, p2) {
                    if c.norm(&u) != c.norm(&s) {
                        return Err("ec: add_unified wrong".into());
                    }
                }
                if let Some(u) = c.add_dedicated(p1, p2) {
                    if c.norm(&u) != c.norm(&s) {
                        return Err("ec: add_dedicated wrong".into());
                    }
                }
            }
            if p1.is_finite() && c.add_dedicated(p1, p1).is_some() {
                return Err("ec: dedicated law claims to double".into());
            }
        }
        // associativity (all triples for the smallest fields, a slice otherwise)
        let lim = if p <= 13 { pts.len() } else { 6.min(pts.len()) };
        for p1 in pts.iter().take(lim) {
            for p2 in pts.iter() {
                for p3 in pts.iter().take(if p <= 13 { pts.len() } else { 12 }) {
                    let l = c.add(&c.add(p1, p2), p3);
                    let r = c.add(p1, &c.add(p2, p3));
                    if c.norm(&l) != c.norm(&r) {
                        return Err(format!("ec: not associative on {:?}", (p, a, d, p1, p2, p3)));
                    }
                }
            }
        }
        // orders: N P = O, point_order divides N and is exact
        for p1 in pts.iter().take(40) {
            if !c.is_neutral(&c.mul(n as u128, p1)) {
                return Err("ec: N P != O".into());
            }
            if p >= 29 {
                // (for tiny p the Hasse interval can contain several multiples; still fine)
                let ord = c.point_order(p1);
                if n % ord != 0 || !c.is_neutral(&c.mul(ord as u128, p1)) {
                    return Err(format!("ec: point_order {} wrong (N={})", ord, n));
                }
                for (l, _) in factor_u64(ord) {
                    if c.is_neutral(&c.mul((ord / l) as u128, p1)) {
                        return Err("ec: point_order not minimal".into());
                    }
                }
            }
        }
    }
    if classes.iter().flatten().any(|&c| c == 0) {
        return Err("ec: self-test does not cover all quadratic characters".into());
    }
    // Known orders from the repository's unit tests (sigma = 11 twisted curve, a = -1):
    // generator (-11/60, 11529/12860); group orders 602768647071432 mod 602768606663711
    // and 957629727109848 mod 957629686686973.
    for (p, n) in [
        (602768606663711u64, 602768647071432u64),
        (957629686686973, 957629727109848),
    ] {
        let f = Fp::new(p);
        let x = f.div(f.from_i128(-11), 60).unwrap();
        let y = f.div(11529, 12860).unwrap();
        let (c, g) = TwEd::through_point(p, p - 1, x, y).ok_or("sigma=11 curve")?;
        if !c.on_curve(&g) || !c.is_neutral(&c.mul(n as u128, &g)) {
            return Err(format!("ec: sigma=11 curve: {} G != O mod {}", n, p));
        }
        let m = c.order_multiple(&g);
        if !c.is_neutral(&c.mul(m as u128, &g)) {
            return Err("ec: order_multiple".into());
        }
    }
    // Edwards curve through (2, 10) (a = 1): order 2^2*7*19*29*347*503*223843 mod 602768606663711
    {
        let p = 602768606663711u64;
        let n: u64 = 4 * 7 * 19 * 29 * 347 * 503 * 223843;
        let (c, g) = TwEd::through_point(p, 1, 2, 10).ok_or("(2,10) curve")?;
        if !c.is_neutral(&c.mul(n as u128, &g)) {
            return Err("ec: (2,10) curve order".into());
        }
        let ord = c.point_order(&g);
        if n % ord != 0 {
            return Err("ec: (2,10) point order".into());
        }
    }
    Ok(())
}
