//! Primality ground truth for C06 beyond `oracle::int` (DESIGN.md 1.2).  Nothing here calls
//! yamaquasi.  Trusted base: native u64/u128 arithmetic and bnum `+ - * / %`.
//!
//! * `sieve_window`: exact primality flags for a window anywhere below 2^50 (Eratosthenes);
//! * `ref_sprp` / `ref_fermat`: reference strong / Fermat probable-prime tests over bnum
//!   integers (used to *classify* composites: "strong pseudoprime to base set B", never to
//!   decide primality);
//! * `korselt`: Carmichael numbers recognised from their factorisation;
//! * constructive families with the factorisation known by construction: psi_k table,
//!   (k+1)(rk+1), Chernick U_m(k), Proth primes (certificate checked with reference
//!   arithmetic), Pocklington primes hugging a power of two.

use bnum::BUint;

use super::int::{
    certified_prime, mulmod, pocklington_check, powmod, ref_isprime64, resize, SplitMix, U1024, U256, U512,
};

/// flags[i] <=> lo + i is prime.  `base` must contain every prime p with p*p < lo + len.
pub fn sieve_window(lo: u64, len: usize, base: &[u32]) -> Vec<bool> {
    let hi = lo + len as u64;
    assert!(hi <= 1 << 50);
    let last = *base.last().unwrap() as u64;
    assert!((last + 2) * (last + 2) > hi, "base primes too short for the window");
    let mut prime = vec![true; len];
    for i in 0..len.min(2usize.saturating_sub(lo as usize)) {
        prime[i] = false; // 0 and 1
    }
    for &p in base {
        let p = p as u64;
        if p * p >= hi {
            break;
        }
        let mut m = ((lo + p - 1) / p) * p;
        if m < p * p {
            m = p * p;
        }
        while m < hi {
            prime[(m - lo) as usize] = false;
            m += p;
        }
    }
    prime
}

/// Strong probable-prime test of odd n > 2 to base a, n*n must fit in BUint<N>.
pub fn sprp_n<const N: usize>(n: &BUint<N>, a: u64) -> bool {
    debug_assert!(n.bit(0) && 2 * n.bits() <= 64 * N as u32);
    let one = BUint::<N>::ONE;
    let nm1 = *n - one;
    let s = nm1.trailing_zeros();
    let d = nm1 >> s;
    let a = BUint::<N>::from(a) % *n;
    if a.is_zero() {
        return true; // base divisible by n carries no information (convention: passes)
    }
    let mut x = powmod(&a, &d, n);
    if x == one || x == nm1 {
        return true;
    }
    for _ in 1..s {
        x = mulmod(&x, &x, n);
        if x == nm1 {
            return true;
        }
        if x == one {
            return false;
        }
    }
    false
}

/// Strong probable-prime test for odd 3 <= n < 2^512 (width chosen so that n^2 fits).
pub fn ref_sprp(n: &U1024, a: u64) -> bool {
    assert!(n.bit(0) && n.bits() <= 512 && n.bits() >= 2);
    if n.bits() <= 128 {
        sprp_n::<4>(&resize::<16, 4>(n), a)
    } else if n.bits() <= 256 {
        sprp_n::<8>(&resize::<16, 8>(n), a)
    } else {
        sprp_n::<16>(n, a)
    }
}

/// a^(n-1) == 1 mod n, for odd 3 <= n < 2^512.
pub fn ref_fermat(n: &U1024, a: u64) -> bool {
    assert!(n.bit(0) && n.bits() <= 512 && n.bits() >= 2);
    if n.bits() <= 128 {
        let m: U256 = resize(n);
        powmod(&(U256::from(a) % m), &(m - U256::ONE), &m).is_one()
    } else if n.bits() <= 256 {
        let m: U512 = resize(n);
        powmod(&(U512::from(a) % m), &(m - U512::ONE), &m).is_one()
    } else {
        powmod(&(U1024::from(a) % *n), &(*n - U1024::ONE), n).is_one()
    }
}

pub const FIRST_PRIMES: [u64; 13] = [2, 3, 5, 7, 11, 13, 17, 19, 23, 29, 31, 37, 41];

/// Number r such that n passes the strong test for each of the first r primes
/// (stops at the first failing base, at most 13).
pub fn sprp_prefix(n: &U1024) -> u32 {
    let mut r = 0;
    for a in FIRST_PRIMES {
        if !ref_sprp(n, a) {
            break;
        }
        r += 1;
    }
    r
}

/// 64-bit variant with u128 arithmetic (independent of the bnum one).
pub fn sprp64(n: u64, a: u64) -> bool {
    use super::int::{mulmod64, powmod64};
    debug_assert!(n & 1 == 1 && n > 2);
    let s = (n - 1).trailing_zeros();
    let d = (n - 1) >> s;
    let a = a % n;
    if a == 0 {
        return true;
    }
    let mut x = powmod64(a, d, n);
    if x == 1 || x == n - 1 {
        return true;
    }
    for _ in 1..s {
        x = mulmod64(x, x, n);
        if x == n - 1 {
            return true;
        }
        if x == 1 {
            return false;
        }
    }
    false
}

pub fn sprp_prefix64(n: u64) -> u32 {
    let mut r = 0;
    for a in FIRST_PRIMES {
        if !sprp64(n, a) {
            break;
        }
        r += 1;
    }
    r
}

/// Korselt: n = prod(parts) is a Carmichael number iff the parts are >= 3 distinct odd primes
/// (primality of the parts is the caller's knowledge) and (p-1) | (n-1) for each.
pub fn korselt(parts: &[U1024]) -> bool {
    if parts.len() < 3 {
        return false;
    }
    let mut n = U1024::ONE;
    for p in parts {
        n *= *p;
    }
    for (i, p) in parts.iter().enumerate() {
        if !p.bit(0) || parts[..i].contains(p) {
            return false;
        }
        if !((n - U1024::ONE) % (*p - U1024::ONE)).is_zero() {
            return false;
        }
    }
    true
}

/// psi_k: smallest strong pseudoprime to the first k prime bases (Jaeschke; Jiang & Deng;
/// Sorenson & Webster), k = 1..13.  psi_12, psi_13 exceed 64 bits.
pub const PSI: [&str; 13] = [
    "2047",
    "1373653",
    "25326001",
    "3215031751",
    "2152302898747",
    "3474749660383",
    "341550071728321",
    "341550071728321",
    "3825123056546413051",
    "3825123056546413051",
    "3825123056546413051",
    "318665857834031151167461",
    "3317044064679887385961981",
];

/// Known factorisations of the psi_k (checked by the kit self-test: product and primality
/// of the parts), so that "composite" is known by construction and not by a primality test.
pub const PSI_FACTORS: [&[u64]; 13] = [
    &[23, 89],
    &[829, 1657],
    &[2251, 11251],
    &[151, 751, 28351],
    &[6763, 10627, 29947],
    &[1303, 16927, 157543],
    &[10670053, 32010157],
    &[10670053, 32010157],
    &[149491, 747451, 34233211],
    &[149491, 747451, 34233211],
    &[149491, 747451, 34233211],
    &[399165290221, 798330580441],
    &[1287836182261, 2575672364521],
];

/// Other published composites that fool small base sets (all < 2^64): strong pseudoprimes to
/// {2,3,5,7} (Jaeschke's list below 2.5e10 has exactly these besides psi_4), to {2,3,5}
/// and some Carmichael numbers that are strong pseudoprimes to several bases.
pub const EXTRA_SPSP: [u64; 20] = [
    // spsp(2,3,5)
    25326001,
    161304001,
    960946321,
    1157839381,
    3215031751,
    3697278427,
    5764643587,
    6770862367,
    14386156093,
    15579919981,
    18459366157,
    19887974881,
    21276028621,
    // spsp(2,3,5,7) below 2^40 other than psi_4
    118670087467,
    307768373641,
    315962312077,
    354864744877,
    // Carmichael numbers
    561,
    9746347772161,
    // spsp(2,3,5,7,11) second smallest (above 2^40)
    3474749660383,
];

/// Cheap filter used by the family searches: false if n has a prime factor <= 199 (and is not
/// that prime).  Only a filter: primality is always decided by `ref_isprime64` afterwards.
fn presieve(n: u64) -> bool {
    for &q in TRIAL.iter() {
        if n % q == 0 {
            return n == q;
        }
    }
    n & 1 == 1 || n == 2
}

/// Chernick's U_m(k) = (6k+1)(12k+1) prod_{i=1..m-2} (9*2^i*k+1): a Carmichael number when
/// every factor is prime (and 2^(m-4) | k for m >= 4).  Returns the factors if they are all
/// prime 64-bit integers.  The caller still verifies Korselt's criterion.
pub fn chernick(k: u64, m: u32) -> Option<Vec<u64>> {
    assert!((3..=8).contains(&m));
    if m >= 4 && k % (1 << (m - 4)) != 0 {
        return None;
    }
    let mut buf = [0u64; 8];
    buf[0] = k.checked_mul(6)?.checked_add(1)?;
    buf[1] = k.checked_mul(12)?.checked_add(1)?;
    for i in 1..=(m - 2) {
        buf[(i + 1) as usize] = k.checked_mul(9 << i)?.checked_add(1)?;
    }
    let fs = &buf[..m as usize];
    if fs.iter().all(|&f| presieve(f)) && fs.iter().all(|&f| ref_isprime64(f)) {
        Some(fs.to_vec())
    } else {
        None
    }
}

/// First k' >= k (in steps of `step`) such that U_m(k') has only prime factors; None if the
/// search leaves the 64-bit factor range or exceeds `budget` candidates.
pub fn chernick_from(k: u64, m: u32, budget: u64) -> Option<(u64, Vec<u64>)> {
    let step = if m >= 4 { 1u64 << (m - 4) } else { 1 };
    let mut k = (k / step).max(1) * step;
    for _ in 0..budget {
        // 9 * 2^(m-2) * k + 1 must fit
        (9u64 << (m - 2)).checked_mul(k)?.checked_add(1)?;
        if let Some(fs) = chernick(k, m) {
            return Some((k, fs));
        }
        k = k.checked_add(step)?;
    }
    None
}

/// First prime p >= p0 (odd steps) such that r*(p-1)+1 is prime too: n = p * (r(p-1)+1) is
/// the classical (k+1)(rk+1) strong-pseudoprime family.  None when out of the 64-bit range.
pub fn twin_family(p0: u64, r: u64, budget: u64) -> Option<(u64, u64)> {
    let mut p = p0.max(3) | 1;
    for _ in 0..budget {
        let q = r.checked_mul(p - 1)?.checked_add(1)?;
        if presieve(p) && presieve(q) && ref_isprime64(p) && ref_isprime64(q) {
            return Some((p, q));
        }
        p = p.checked_add(2)?;
    }
    None
}

/// Three-factor variant: p, q = a(p-1)+1, r = b(p-1)+1 all prime.
pub fn triple_family(p0: u64, a: u64, b: u64, budget: u64) -> Option<(u64, u64, u64)> {
    let mut p = p0.max(3) | 1;
    for _ in 0..budget {
        let q = a.checked_mul(p - 1)?.checked_add(1)?;
        let r = b.checked_mul(p - 1)?.checked_add(1)?;
        if presieve(p) && presieve(q) && presieve(r) && ref_isprime64(p) && ref_isprime64(q) && ref_isprime64(r) {
            return Some((p, q, r));
        }
        p = p.checked_add(2)?;
    }
    None
}

const TRIAL: [u64; 45] = [
    3, 5, 7, 11, 13, 17, 19, 23, 29, 31, 37, 41, 43, 47, 53, 59, 61, 67, 71, 73, 79, 83, 89, 97, 101, 103, 107,
    109, 113, 127, 131, 137, 139, 149, 151, 157, 163, 167, 173, 179, 181, 191, 193, 197, 199,
];

fn has_small_factor(n: &U1024) -> bool {
    TRIAL.iter().any(|&p| (*n % U1024::from(p)).is_zero() && *n != U1024::from(p))
}

fn powmod_any(a: u64, e: &U1024, n: &U1024) -> U1024 {
    // n <= 512 bits
    if n.bits() <= 128 {
        let m: U256 = resize(n);
        resize(&powmod(&(U256::from(a) % m), e, &m))
    } else if n.bits() <= 256 {
        let m: U512 = resize(n);
        resize(&powmod(&(U512::from(a) % m), e, &m))
    } else {
        powmod(&(U1024::from(a) % *n), e, n)
    }
}

/// Proth certificate: N = k*2^e + 1 with k odd, k < 2^e is prime iff some a has
/// a^((N-1)/2) = -1 mod N.  Returns true when the certificate verifies for a small prime a.
pub fn proth_check(n: &U1024) -> bool {
    if !n.bit(0) || n.bits() > 512 || n.bits() < 3 {
        return false;
    }
    let nm1 = *n - U1024::ONE;
    let e = nm1.trailing_zeros();
    let k = nm1 >> e;
    if k.bits() > e {
        return false; // not a Proth number
    }
    let half = nm1 >> 1;
    for a in [3u64, 5, 7, 11, 13, 17, 19, 23] {
        let x = powmod_any(a, &half, n);
        if x == nm1 {
            return true;
        }
        if !x.is_one() {
            return false; // Euler criterion violated: composite
        }
    }
    false
}

/// A Proth prime k*2^e' + 1 (k odd with exactly `kbits` >= 2 bits, e' >= e the first exponent for
/// which the search over k succeeds) found from the seed: its low word is 1 and n-1 has
/// >= 65 trailing zero bits when e >= 65.
pub fn proth_prime(e: u32, kbits: u32, seed: u64) -> U1024 {
    assert!(e >= 2 && kbits >= 2 && kbits <= e.min(64) && e + kbits <= 480);
    let mut r = SplitMix(seed ^ 0x9707);
    let mask = if kbits < 64 { (1u64 << kbits) - 1 } else { u64::MAX };
    let top = 1 | (1u64 << (kbits - 1));
    let k0 = (r.next() & mask) | top;
    let mut e = e;
    loop {
        let mut k = k0;
        loop {
            let n = (U1024::from(k) << e) + U1024::ONE;
            if !has_small_factor(&n) && proth_check(&n) {
                return n;
            }
            k = (k.wrapping_add(2) & mask) | top;
            if k == k0 {
                break;
            }
        }
        e += 1;
        assert!(e + kbits <= 510);
    }
}

/// Pocklington prime 2*j*q + 1 as close as possible below 2^bits (its top ~bits/2 bits are
/// all ones) or above 2^(bits-1) (top bit followed by ~bits/2 zero bits): the operand shapes
/// next to a word boundary that random primes never have.  q = certified_prime(qbits, idx).
pub fn edge_prime(bits: u32, below: bool, idx: u32) -> U1024 {
    assert!((66..=512).contains(&bits));
    let qbits = bits / 2 + 2;
    let q = certified_prime(qbits, idx);
    let two_q = q << 1u32;
    let mut j = if below {
        ((U1024::ONE << bits) - U1024::ONE) / two_q
    } else {
        (U1024::ONE << (bits - 1)) / two_q + U1024::ONE
    };
    loop {
        let n = j * two_q + U1024::ONE;
        debug_assert!(n.bits() == bits);
        if !has_small_factor(&n) && ref_fermat(&n, 2) && pocklington_check(&n, &q) {
            return n;
        }
        if below {
            j -= U1024::ONE;
        } else {
            j += U1024::ONE;
        }
    }
}

/// Kit self-test for this file.
pub fn self_test() -> Result<(), String> {
    // psi table: products, primality of the parts, prefix lengths
    for (i, s) in PSI.iter().enumerate() {
        let n: U1024 = crate::ser::from_dec(s).ok_or("psi parse")?;
        let mut prod = U1024::ONE;
        for &f in PSI_FACTORS[i] {
            if !ref_isprime64(f) {
                return Err(format!("psi_{} factor {} not prime", i + 1, f));
            }
            prod *= U1024::from(f);
        }
        if prod != n {
            return Err(format!("psi_{} factorisation wrong", i + 1));
        }
        let r = sprp_prefix(&n);
        if (r as usize) < i + 1 {
            return Err(format!("psi_{} is a strong pseudoprime to only {} bases", i + 1, r));
        }
        if n.bits() <= 64 {
            let n64 = n.digits()[0];
            if ref_isprime64(n64) || sprp_prefix64(n64) != r {
                return Err(format!("psi_{}: 64-bit reference tests disagree", i + 1));
            }
        }
    }
    // window sieve vs Miller-Rabin
    let base = super::int::ref_sieve(1 << 21);
    for lo in [0u64, (1 << 20) - 64, (1 << 40) - 64] {
        let w = sieve_window(lo, 128, &base);
        for (i, &f) in w.iter().enumerate() {
            if f != ref_isprime64(lo + i as u64) {
                return Err(format!("sieve_window/ref_isprime64 disagree at {}", lo + i as u64));
            }
        }
    }
    // Chernick, Korselt
    let fs = chernick(1, 3).ok_or("chernick(1,3)")?; // 7*13*19 = 1729
    let parts: Vec<U1024> = fs.iter().map(|&f| U1024::from(f)).collect();
    if !korselt(&parts) || korselt(&[U1024::from(3u64), U1024::from(5u64), U1024::from(7u64)]) {
        return Err("korselt".into());
    }
    let p = proth_prime(70, 10, 1);
    if !proth_check(&p) || !ref_fermat(&p, 2) || p.digits()[0] != 1 || p.bits() < 80 {
        return Err("proth".into());
    }
    // 515 * 2^70 + 1 has the Proth shape and is divisible by 3
    if proth_check(&((U1024::from(515u64) << 70) + U1024::ONE)) {
        return Err("proth_check accepts a composite".into());
    }
    Ok(())
}
