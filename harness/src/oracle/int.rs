//! Reference integer arithmetic (DESIGN.md 1.1-1.3).  Nothing here calls yamaquasi.
//! Trusted base: native u128 arithmetic and bnum's + - * / % << >> and comparisons.

use bnum::cast::CastFrom;
use bnum::{BInt, BUint};
use std::collections::HashMap;
use std::sync::Mutex;

/// 4096-bit reference integers: wide enough for any product of two 1024-bit values and
/// for Bézout identities over 1024-bit operands.
pub type Ref = BUint<64>;
pub type IRef = BInt<64>;
pub type U1024 = BUint<16>;
pub type U512 = BUint<8>;
pub type U256 = BUint<4>;

pub fn widen<const N: usize>(x: &BUint<N>) -> Ref {
    let mut d = [0u64; 64];
    d[..N.min(64)].copy_from_slice(&x.digits()[..N.min(64)]);
    Ref::from_digits(d)
}

/// Truncating conversion; `fits` tells whether nothing was lost.
pub fn narrow<const N: usize>(x: &Ref) -> BUint<N> {
    let mut d = [0u64; N];
    let k = N.min(64);
    d[..k].copy_from_slice(&x.digits()[..k]);
    BUint::<N>::from_digits(d)
}

pub fn fits<const N: usize>(x: &Ref) -> bool {
    x.bits() as usize <= 64 * N
}

pub fn resize<const A: usize, const B: usize>(x: &BUint<A>) -> BUint<B> {
    let mut d = [0u64; B];
    let k = A.min(B);
    d[..k].copy_from_slice(&x.digits()[..k]);
    BUint::<B>::from_digits(d)
}

pub fn ref_u128(x: u128) -> Ref {
    Ref::from(x)
}

pub fn ref_gcd<const N: usize>(a: &BUint<N>, b: &BUint<N>) -> BUint<N> {
    let (mut a, mut b) = (*a, *b);
    while !b.is_zero() {
        let r = a % b;
        a = b;
        b = r;
    }
    a
}

/// Textbook extended Euclid on signed 4096-bit integers: (g, u, v) with u*a + v*b = g.
pub fn ref_egcd(a: &Ref, b: &Ref) -> (Ref, IRef, IRef) {
    let (mut r0, mut r1) = (IRef::cast_from(*a), IRef::cast_from(*b));
    let (mut s0, mut s1) = (IRef::ONE, IRef::ZERO);
    let (mut t0, mut t1) = (IRef::ZERO, IRef::ONE);
    while !r1.is_zero() {
        let q = r0 / r1;
        let r2 = r0 - q * r1;
        r0 = r1;
        r1 = r2;
        let s2 = s0 - q * s1;
        s0 = s1;
        s1 = s2;
        let t2 = t0 - q * t1;
        t0 = t1;
        t1 = t2;
    }
    (Ref::cast_from(r0), s0, t0)
}

/// x^-1 mod n (n > 1), None if gcd != 1.
pub fn ref_invmod(x: &Ref, n: &Ref) -> Option<Ref> {
    let (g, u, _) = ref_egcd(&(*x % *n), n);
    if !g.is_one() {
        return None;
    }
    let ni = IRef::cast_from(*n);
    let mut u = u % ni;
    if u.is_negative() {
        u += ni;
    }
    Some(Ref::cast_from(u))
}

/// (a*b) mod n; requires a*b < 2^(64N).
pub fn mulmod<const N: usize>(a: &BUint<N>, b: &BUint<N>, n: &BUint<N>) -> BUint<N> {
    debug_assert!(a.bits() + b.bits() <= 64 * N as u32);
    (*a * *b) % *n
}

/// b^e mod n; requires n^2 < 2^(64N).
pub fn powmod<const N: usize, const E: usize>(b: &BUint<N>, e: &BUint<E>, n: &BUint<N>) -> BUint<N> {
    if n.is_one() {
        return BUint::ZERO;
    }
    let mut res = BUint::<N>::ONE;
    let mut sq = *b % *n;
    let nb = e.bits();
    for i in 0..nb {
        if e.bit(i) {
            res = mulmod(&res, &sq, n);
        }
        if i + 1 < nb {
            sq = mulmod(&sq, &sq, n);
        }
    }
    res
}

pub fn ref_powmod(b: &Ref, e: &Ref, n: &Ref) -> Ref {
    powmod(b, e, n)
}

pub fn mulmod64(a: u64, b: u64, n: u64) -> u64 {
    ((a as u128 * b as u128) % n as u128) as u64
}

pub fn powmod64(b: u64, mut e: u64, n: u64) -> u64 {
    if n == 1 {
        return 0;
    }
    let mut res = 1u64;
    let mut sq = b % n;
    while e > 0 {
        if e & 1 == 1 {
            res = mulmod64(res, sq, n);
        }
        sq = mulmod64(sq, sq, n);
        e >>= 1;
    }
    res
}

pub fn gcd64(mut a: u64, mut b: u64) -> u64 {
    while b != 0 {
        let r = a % b;
        a = b;
        b = r;
    }
    a
}

pub fn gcd128(mut a: u128, mut b: u128) -> u128 {
    while b != 0 {
        let r = a % b;
        a = b;
        b = r;
    }
    a
}

/// floor(sqrt(n)), bit by bit.
pub fn ref_isqrt<const N: usize>(n: &BUint<N>) -> BUint<N> {
    ref_iroot(n, 2)
}

/// floor(n^(1/k)), bit by bit (k >= 1).
pub fn ref_iroot<const N: usize>(n: &BUint<N>, k: u32) -> BUint<N> {
    assert!(k >= 1);
    if k == 1 || n.is_zero() {
        return *n;
    }
    let top = (n.bits() + k - 1) / k; // root < 2^top
    let mut r = BUint::<N>::ZERO;
    for b in (0..top).rev() {
        let cand = r | (BUint::<N>::ONE << b);
        // cand^k <= n ?  (checked multiplication: overflow means > n)
        let mut p = BUint::<N>::ONE;
        let mut ok = true;
        for _ in 0..k {
            match p.checked_mul(cand) {
                Some(v) if v <= *n => p = v,
                _ => {
                    ok = false;
                    break;
                }
            }
        }
        if ok {
            r = cand;
        }
    }
    r
}

pub fn isqrt_u128(n: u128) -> u128 {
    let x = BUint::<2>::from(n);
    let r = ref_isqrt(&x);
    r.digits()[0] as u128 | ((r.digits()[1] as u128) << 64)
}

/// Jacobi symbol (a/n) for odd n > 0.
pub fn jacobi64(a: u64, n: u64) -> i32 {
    assert!(n & 1 == 1);
    let (mut a, mut n) = (a % n, n);
    let mut t = 1;
    while a != 0 {
        while a & 1 == 0 {
            a >>= 1;
            let r = n & 7;
            if r == 3 || r == 5 {
                t = -t;
            }
        }
        std::mem::swap(&mut a, &mut n);
        if a & 3 == 3 && n & 3 == 3 {
            t = -t;
        }
        a %= n;
    }
    if n == 1 {
        t
    } else {
        0
    }
}

pub fn jacobi<const N: usize>(a: &BUint<N>, n: &BUint<N>) -> i32 {
    assert!(n.bit(0));
    let (mut a, mut n) = (*a % *n, *n);
    let mut t = 1;
    while !a.is_zero() {
        while !a.bit(0) {
            a >>= 1;
            let r = n.digits()[0] & 7;
            if r == 3 || r == 5 {
                t = -t;
            }
        }
        std::mem::swap(&mut a, &mut n);
        if a.digits()[0] & 3 == 3 && n.digits()[0] & 3 == 3 {
            t = -t;
        }
        a %= n;
    }
    if n.is_one() {
        t
    } else {
        0
    }
}

// ---------------------------------------------------------------------------
// Primality

/// Deterministic Miller-Rabin for 64-bit integers: bases {2, 325, 9375, 28178, 450775,
/// 9780504, 1795265022} (Jaeschke/Sinclair), plain u128 `%` arithmetic.
pub fn ref_isprime64(n: u64) -> bool {
    if n < 2 {
        return false;
    }
    for p in [2u64, 3, 5, 7, 11, 13, 17, 19, 23, 29, 31, 37] {
        if n % p == 0 {
            return n == p;
        }
    }
    let s = (n - 1).trailing_zeros();
    let d = (n - 1) >> s;
    'bases: for a in [2u64, 325, 9375, 28178, 450775, 9780504, 1795265022] {
        let a = a % n;
        if a == 0 {
            continue;
        }
        let mut x = powmod64(a, d, n);
        if x == 1 || x == n - 1 {
            continue;
        }
        for _ in 1..s {
            x = mulmod64(x, x, n);
            if x == n - 1 {
                continue 'bases;
            }
        }
        return false;
    }
    true
}

/// All primes < limit (limit <= 2^32), odd-only bitset sieve.
pub fn ref_sieve(limit: u64) -> Vec<u32> {
    let mut out = vec![];
    if limit > 2 {
        out.push(2);
    }
    if limit < 4 {
        return out;
    }
    let half = (limit / 2) as usize; // index i <-> 2i+1
    let mut comp = vec![false; half];
    let mut i = 1usize;
    while (2 * i + 1) * (2 * i + 1) < limit as usize {
        if !comp[i] {
            let p = 2 * i + 1;
            let mut j = (p * p) / 2;
            while j < half {
                comp[j] = true;
                j += p;
            }
        }
        i += 1;
    }
    for i in 1..half {
        if !comp[i] && ((2 * i + 1) as u64) < limit {
            out.push((2 * i + 1) as u32);
        }
    }
    out
}

/// Primes in [lo, hi) for hi <= 2^32 + 2^17, segmented; `base` must contain all primes <= sqrt(hi).
pub fn ref_sieve_segment(lo: u64, hi: u64, base: &[u32]) -> Vec<u64> {
    let len = (hi - lo) as usize;
    let mut comp = vec![false; len];
    for &p in base {
        let p = p as u64;
        if p * p >= hi {
            break;
        }
        let mut m = ((lo + p - 1) / p) * p;
        if m < p * p {
            m = p * p;
        }
        while m < hi {
            comp[(m - lo) as usize] = true;
            m += p;
        }
    }
    let mut out = vec![];
    for i in 0..len {
        let v = lo + i as u64;
        if v >= 2 && !comp[i] {
            out.push(v);
        }
    }
    out
}

/// Trial-division factorisation of a u64 (for small cofactors / group orders).
pub fn factor_u64(mut n: u64) -> Vec<(u64, u32)> {
    let mut out = vec![];
    let mut p = 2u64;
    while p * p <= n {
        if n % p == 0 {
            let mut e = 0;
            while n % p == 0 {
                n /= p;
                e += 1;
            }
            out.push((p, e));
        }
        p += if p == 2 { 1 } else { 2 };
        if p > 3_000_000 && ref_isprime64(n) {
            break;
        }
    }
    if n > 1 {
        out.push((n, 1));
    }
    out
}

/// Square root of a modulo an odd prime p < 2^63 (Cipolla).  None if a is a non-residue.
pub fn sqrt_mod_p64(a: u64, p: u64) -> Option<u64> {
    let a = a % p;
    if a == 0 {
        return Some(0);
    }
    if p == 2 {
        return Some(a);
    }
    if jacobi64(a, p) != 1 {
        return None;
    }
    // find t with t^2 - a a non-residue
    let mut t = 1u64;
    let w = loop {
        let w = (mulmod64(t, t, p) + p - a) % p;
        if w != 0 && jacobi64(w, p) == -1 {
            break w;
        }
        if w == 0 {
            return Some(t);
        }
        t += 1;
    };
    // (t + sqrt(w))^((p+1)/2) in F_p[x]/(x^2-w)
    let mul = |x: (u64, u64), y: (u64, u64)| -> (u64, u64) {
        (
            (mulmod64(x.0, y.0, p) + mulmod64(mulmod64(x.1, y.1, p), w, p)) % p,
            (mulmod64(x.0, y.1, p) + mulmod64(x.1, y.0, p)) % p,
        )
    };
    let mut res = (1u64, 0u64);
    let mut sq = (t, 1u64);
    let mut e = (p + 1) / 2;
    while e > 0 {
        if e & 1 == 1 {
            res = mul(res, sq);
        }
        sq = mul(sq, sq);
        e >>= 1;
    }
    debug_assert!(res.1 == 0);
    Some(res.0)
}

// ---------------------------------------------------------------------------
// Deterministic PRNG for *derived* choices (always seeded from a proptest-generated value)

#[derive(Clone)]
pub struct SplitMix(pub u64);

impl SplitMix {
    pub fn next(&mut self) -> u64 {
        self.0 = self.0.wrapping_add(0x9E3779B97F4A7C15);
        let mut z = self.0;
        z = (z ^ (z >> 30)).wrapping_mul(0xBF58476D1CE4E5B9);
        z = (z ^ (z >> 27)).wrapping_mul(0x94D049BB133111EB);
        z ^ (z >> 31)
    }
    pub fn below(&mut self, n: u64) -> u64 {
        if n == 0 {
            0
        } else {
            ((self.next() as u128 * n as u128) >> 64) as u64
        }
    }
    pub fn bits<const N: usize>(&mut self, bits: u32) -> BUint<N> {
        let mut d = [0u64; N];
        for w in d.iter_mut() {
            *w = self.next();
        }
        let x = BUint::<N>::from_digits(d);
        if bits == 0 {
            BUint::ZERO
        } else if bits as usize >= 64 * N {
            x
        } else {
            x & ((BUint::<N>::ONE << bits) - BUint::<N>::ONE)
        }
    }
}

// ---------------------------------------------------------------------------
// Certified primes (Pocklington) and a table of well-known primes

const SMALL: [u64; 54] = [
    3, 5, 7, 11, 13, 17, 19, 23, 29, 31, 37, 41, 43, 47, 53, 59, 61, 67, 71, 73, 79, 83, 89, 97,
    101, 103, 107, 109, 113, 127, 131, 137, 139, 149, 151, 157, 163, 167, 173, 179, 181, 191, 193,
    197, 199, 211, 223, 227, 229, 233, 239, 241, 251, 257,
];

/// A random prime with exactly `bits` bits (2 <= bits <= 64), certified by `ref_isprime64`.
pub fn prime64(bits: u32, rng: &mut SplitMix) -> u64 {
    assert!((2..=64).contains(&bits));
    if bits == 2 {
        return 2 + (rng.next() & 1);
    }
    loop {
        let mut x = rng.next();
        if bits < 64 {
            x &= (1u64 << bits) - 1;
        }
        x |= 1 | (1u64 << (bits - 1));
        if ref_isprime64(x) {
            return x;
        }
    }
}

/// Pocklington: N = 2*k*q + 1 with q prime, q > sqrt(N) (here 2k < q):
/// N is prime iff some a has a^(N-1) = 1 and gcd(a^((N-1)/q) - 1, N) = 1.
/// Returns Some(witness) if the certificate verifies.
pub fn pocklington_check(n: &U1024, q: &U1024) -> bool {
    let nm1 = *n - U1024::ONE;
    if !(nm1 % *q).is_zero() {
        return false;
    }
    let cof = nm1 / *q;
    if cof >= *q {
        return false;
    }
    let nr: Ref = widen(n);
    for a in [2u64, 3, 5, 7, 11, 13] {
        let a = Ref::from(a);
        if !ref_powmod(&a, &widen(&nm1), &nr).is_one() {
            return false; // composite (Fermat)
        }
        let b = ref_powmod(&a, &widen(&cof), &nr);
        let bm1 = if b.is_zero() { nr - Ref::ONE } else { b - Ref::ONE };
        if ref_gcd(&bm1, &nr).is_one() {
            return true;
        }
    }
    false
}

/// Search a certified prime of exactly `bits` bits (65..=1000) of the form 2*k*q + 1
/// where q is a certified prime of about (bits+2)/2 bits.
fn pocklington_prime(bits: u32, rng: &mut SplitMix) -> U1024 {
    let qbits = (bits + 4) / 2;
    let q: U1024 = if qbits <= 64 {
        U1024::from(prime64(qbits.max(34), rng))
    } else {
        pocklington_prime(qbits, rng)
    };
    let q = if q.bits() * 2 <= bits { U1024::from(prime64(64, rng)) } else { q };
    let kbits = bits - q.bits() - 1; // 2*k*q has `bits` bits when k has kbits+? bits
    // N-1 = 2kq must lie in [2^(bits-1), 2^bits)
    let lo = (U1024::ONE << (bits - 1)) / (q << 1u32) + U1024::ONE;
    let hi = ((U1024::ONE << bits) - U1024::ONE) / (q << 1u32);
    let span = hi - lo;
    let _ = kbits;
    // fast modular filter uses 512-bit or 1024-bit arithmetic depending on size
    loop {
        let r: U1024 = rng.bits::<16>(span.bits() + 8) % (span + U1024::ONE);
        let k = lo + r;
        let n = ((k * q) << 1u32) + U1024::ONE;
        if n.bits() != bits {
            continue;
        }
        if SMALL.iter().any(|&p| (n % U1024::from(p)).is_zero()) {
            continue;
        }
        // Fermat base 2 with the narrowest type that holds n^2
        let probable = if bits <= 250 {
            let m: U512 = resize(&n);
            powmod(&U512::from(2u64), &(m - U512::ONE), &m).is_one()
        } else if bits <= 500 {
            let m: U1024 = n;
            powmod(&U1024::from(2u64), &(m - U1024::ONE), &m).is_one()
        } else {
            let m: BUint<32> = resize(&n);
            powmod(&BUint::<32>::from(2u64), &(m - BUint::<32>::ONE), &m).is_one()
        };
        if !probable {
            continue;
        }
        if pocklington_check(&n, &q) {
            return n;
        }
    }
}

static POOL: Mutex<Option<HashMap<(u32, u32), U1024>>> = Mutex::new(None);

/// The `idx`-th certified prime with exactly `bits` bits (2..=1000).  Deterministic
/// (independent of VERIF_SEED) and cached per process: primality is known by
/// construction (ref_isprime64 for <= 64 bits, Pocklington certificate above).
pub fn certified_prime(bits: u32, idx: u32) -> U1024 {
    if let Some(v) = POOL.lock().unwrap().get_or_insert_with(HashMap::new).get(&(bits, idx)) {
        return *v;
    }
    let mut rng = SplitMix(0x5eed_0000_0000 ^ ((bits as u64) << 32) ^ idx as u64);
    let p = if bits <= 64 {
        U1024::from(prime64(bits, &mut rng))
    } else {
        pocklington_prime(bits, &mut rng)
    };
    POOL.lock().unwrap().get_or_insert_with(HashMap::new).insert((bits, idx), p);
    p
}

/// Well-known primes (decimal or `2^a-...` resolved here), all <= 521 bits.
pub fn famous_primes() -> Vec<U1024> {
    let one = U1024::ONE;
    let p2 = |e: u32| one << e;
    vec![
        p2(61) - one,
        p2(89) - one,
        p2(107) - one,
        p2(127) - one,
        p2(255) - U1024::from(19u64),
        p2(448) - p2(224) - one,
        p2(192) - p2(64) - one,
        p2(224) - p2(96) + one,
        p2(256) - p2(224) + p2(192) + p2(96) - one,
        p2(384) - p2(128) - p2(96) + p2(32) - one,
        p2(64) - U1024::from(59u64),
        p2(128) - U1024::from(159u64),
        p2(256) - U1024::from(189u64),
        p2(512) - U1024::from(569u64),
        p2(64) + U1024::from(13u64),
        p2(128) + U1024::from(51u64),
    ]
}

/// Kit self-test: known values.  Err(text) means the kit itself is broken (exit 3).
pub fn self_test() -> Result<(), String> {
    let pr = ref_sieve(1_000_000);
    if pr.len() != 78498 {
        return Err(format!("pi(10^6) = {}", pr.len()));
    }
    for &p in pr.iter().step_by(997) {
        if !ref_isprime64(p as u64) {
            return Err(format!("ref_isprime64({}) false", p));
        }
    }
    for c in [3215031751u64, 3825123056546413051, 9746347772161, 341, 561] {
        if ref_isprime64(c) {
            return Err(format!("ref_isprime64({}) true", c));
        }
    }
    if !ref_isprime64(18446744073709551557) || !ref_isprime64((1 << 61) - 1) {
        return Err("large primes".into());
    }
    // bnum vs u128
    let mut rng = SplitMix(42);
    for _ in 0..200 {
        let a = ((rng.next() as u128) << 64) | rng.next() as u128;
        let b = (rng.next() as u128 >> (rng.next() % 60)) | 1;
        let (ra, rb) = (BUint::<4>::from(a), BUint::<4>::from(b));
        if BUint::<4>::from(a / b) != ra / rb || BUint::<4>::from(a % b) != ra % rb {
            return Err("bnum div".into());
        }
        let (a64, b64) = (a as u64 as u128, (a >> 64) as u64 as u128);
        if BUint::<4>::from(a64 * b64) != BUint::<4>::from(a64) * BUint::<4>::from(b64) {
            return Err("bnum mul".into());
        }
        if gcd128(a, b) != {
            let g = ref_gcd(&ra, &rb);
            g.digits()[0] as u128 | ((g.digits()[1] as u128) << 64)
        } {
            return Err("gcd".into());
        }
    }
    let (g, u, v) = ref_egcd(&Ref::from(240u64), &Ref::from(46u64));
    if g != Ref::from(2u64) || u * IRef::from(240i64) + v * IRef::from(46i64) != IRef::from(2i64) {
        return Err("egcd".into());
    }
    if isqrt_u128(u128::MAX) != u64::MAX as u128 || ref_iroot(&Ref::from(1000u64), 3) != Ref::from(10u64) {
        return Err("iroot".into());
    }
    if jacobi64(2, 7) != 1 || jacobi64(3, 7) != -1 || jacobi64(21, 7) != 0 || jacobi64(1001, 9907) != -1 {
        return Err("jacobi".into());
    }
    for p in [7u64, 13, 1000003, (1 << 61) - 1] {
        for a in [2u64, 3, 5, 10, 12345] {
            match sqrt_mod_p64(a, p) {
                Some(r) => {
                    if mulmod64(r, r, p) != a % p {
                        return Err("sqrt".into());
                    }
                }
                None => {
                    if jacobi64(a, p) != -1 {
                        return Err("sqrt none".into());
                    }
                }
            }
        }
    }
    for p in famous_primes() {
        // Fermat/strong check base 3 with reference arithmetic
        let pr: Ref = widen(&p);
        if !ref_powmod(&Ref::from(3u64), &(pr - Ref::ONE), &pr).is_one() {
            return Err(format!("famous prime {} fails Fermat", p));
        }
    }
    let p = certified_prime(130, 0);
    if p.bits() != 130 {
        return Err("certified_prime bits".into());
    }
    Ok(())
}

// ---------------------------------------------------------------------------
// Reference factorisation of 64-bit integers (trial division + Brent's rho with u128 `%`)

fn rho_brent(n: u64, c: u64) -> u64 {
    // returns a non-trivial divisor of the odd composite n, or n on failure
    let f = |x: u64| ((x as u128 * x as u128 + c as u128) % n as u128) as u64;
    let (mut y, mut r, mut q, mut g) = (2u64, 1u64, 1u64, 1u64);
    let (mut x, mut ys) = (0u64, 0u64);
    let m = 128;
    while g == 1 {
        x = y;
        for _ in 0..r {
            y = f(y);
        }
        let mut k = 0;
        while k < r && g == 1 {
            ys = y;
            for _ in 0..m.min(r - k) {
                y = f(y);
                q = mulmod64(q, x.abs_diff(y), n);
            }
            g = gcd64(q, n);
            k += m;
        }
        r *= 2;
        if r > 1 << 34 {
            return n;
        }
    }
    if g == n {
        loop {
            ys = f(ys);
            g = gcd64(x.abs_diff(ys), n);
            if g > 1 {
                break;
            }
        }
    }
    g
}

/// Prime factorisation (with multiplicity, sorted) of any u64 >= 2; empty for 0 and 1.
pub fn ref_factor64(n: u64) -> Vec<u64> {
    let mut out = vec![];
    if n < 2 {
        return out;
    }
    let mut n = n;
    for p in [2u64, 3, 5, 7, 11, 13, 17, 19, 23, 29, 31, 37, 41, 43, 47] {
        while n % p == 0 {
            out.push(p);
            n /= p;
        }
    }
    let mut stack = vec![n];
    while let Some(m) = stack.pop() {
        if m == 1 {
            continue;
        }
        if ref_isprime64(m) {
            out.push(m);
            continue;
        }
        // perfect square shortcut (rho is slow on p^2)
        let s = isqrt_u128(m as u128) as u64;
        if s * s == m {
            stack.push(s);
            stack.push(s);
            continue;
        }
        let mut c = 1;
        let d = loop {
            let d = rho_brent(m, c);
            if d != m && d != 1 {
                break d;
            }
            c += 1;
            assert!(c < 200, "rho failed on {}", m);
        };
        stack.push(d);
        stack.push(m / d);
    }
    out.sort();
    out
}
