//! Generators (DESIGN.md 0.2, 1.3): edge-biased multiword integers, odd moduli,
//! constructive primes/composites.  Every random choice comes from a proptest strategy.

use bnum::BUint;
use proptest::prelude::*;
use proptest::strategy::BoxedStrategy;

use crate::oracle::int::{certified_prime, SplitMix, U1024};

/// Map an index drawn in 0..65536 monotonically onto 0..len (shrinks toward 0).
pub fn pick_idx(i: u16, len: usize) -> usize {
    if len == 0 {
        0
    } else {
        ((i as usize) * len) >> 16
    }
}

fn mask<const N: usize>(x: BUint<N>, bits: u32) -> BUint<N> {
    if bits == 0 {
        BUint::ZERO
    } else if bits as usize >= 64 * N {
        x
    } else {
        x & ((BUint::<N>::ONE << bits) - BUint::<N>::ONE)
    }
}

/// Build one edge-biased value from its generated ingredients.
pub fn edgy_build<const N: usize>(mode: u8, bits: u32, limbs: &[u64], small: u64, maxbits: u32) -> BUint<N> {
    let maxbits = maxbits.min(64 * N as u32);
    let bits = bits.min(maxbits);
    let mut d = [0u64; N];
    for i in 0..N {
        d[i] = limbs[i % limbs.len()].rotate_left((i / limbs.len()) as u32 * 7);
    }
    let rnd = BUint::<N>::from_digits(d);
    let one = BUint::<N>::ONE;
    let pow = |b: u32| -> BUint<N> {
        if (b as usize) < 64 * N {
            one << b
        } else {
            BUint::ZERO
        }
    };
    let v = match mode % 10 {
        // uniform below 2^bits
        0 | 1 => mask(rnd, bits),
        // exactly `bits` bits
        2 => {
            if bits == 0 {
                BUint::ZERO
            } else {
                mask(rnd, bits) | pow(bits - 1)
            }
        }
        // 2^bits - 1 - small
        3 => {
            let top = mask(BUint::<N>::MAX, bits);
            top.saturating_sub(BUint::from(small))
        }
        // 2^bits + small
        4 => pow(bits.min(maxbits.saturating_sub(1))).wrapping_add(BUint::from(small)),
        // per-limb patterns 0 / 1 / MAX / single bit / random
        5 => {
            let mut e = [0u64; N];
            for i in 0..N {
                let sel = limbs[(i + 1) % limbs.len()] >> (3 * (i % 16)) & 7;
                e[i] = match sel {
                    0 | 1 => 0,
                    2 => 1,
                    3 | 4 => u64::MAX,
                    5 => 1u64 << (limbs[i % limbs.len()] % 64),
                    6 => u64::MAX << (limbs[i % limbs.len()] % 64),
                    _ => d[i],
                };
            }
            mask(BUint::from_digits(e), bits)
        }
        // near a word boundary 2^(64k) +- small
        6 => {
            let k = (bits / 64).max(1);
            let b = pow(64 * k);
            if small & 1 == 0 {
                b.wrapping_add(BUint::from(small >> 1))
            } else {
                b.wrapping_sub(BUint::from((small >> 1) + 1))
            }
        }
        // tiny
        7 => BUint::from(small),
        // all ones up to `bits` with one random hole word
        8 => {
            let mut v = mask(BUint::<N>::MAX, bits);
            let w = (limbs[0] % N as u64) as usize;
            let mut dd = *v.digits();
            dd[w] &= d[w];
            v = BUint::from_digits(dd);
            v
        }
        // sparse: two or three bits
        _ => {
            let b1 = limbs[0] % (bits.max(1) as u64);
            let b2 = limbs[limbs.len() - 1] % (bits.max(1) as u64);
            pow(b1 as u32) | pow(b2 as u32) | BUint::from(small & 1)
        }
    };
    mask(v, maxbits)
}

/// Edge-biased unsigned integer of at most `maxbits` bits (DESIGN.md 0.2).
pub fn edgy<const N: usize>(maxbits: u32) -> BoxedStrategy<BUint<N>> {
    (
        0u8..10,
        0u32..=maxbits,
        proptest::collection::vec(any::<u64>(), 1..=N.max(1)),
        0u64..=40,
    )
        .prop_map(move |(mode, bits, limbs, small)| edgy_build::<N>(mode, bits, &limbs, small, maxbits))
        .boxed()
}

/// Edge-biased u64.
pub fn edgy64() -> BoxedStrategy<u64> {
    edgy::<1>(64).prop_map(|x| x.digits()[0]).boxed()
}

pub fn edgy128() -> BoxedStrategy<u128> {
    edgy::<2>(128)
        .prop_map(|x| x.digits()[0] as u128 | ((x.digits()[1] as u128) << 64))
        .boxed()
}

/// Odd modulus >= 3 of at most `maxbits` bits, biased to word boundaries.
pub fn odd_modulus<const N: usize>(maxbits: u32) -> BoxedStrategy<BUint<N>> {
    edgy::<N>(maxbits)
        .prop_map(|x| {
            let x = x | BUint::<N>::ONE;
            if x.is_one() {
                BUint::from(3u64)
            } else {
                x
            }
        })
        .boxed()
}

/// A certified prime of `bits` bits (pool index `idx` < pool): strategy over (bits range, pool).
pub fn pool_prime(bits_lo: u32, bits_hi: u32, pool: u32) -> BoxedStrategy<U1024> {
    (bits_lo..=bits_hi, 0..pool)
        .prop_map(|(b, i)| certified_prime(b, i))
        .boxed()
}

/// Random prime with exactly `bits` (<= 64) bits derived from a generated seed.
pub fn prime_from_seed(bits: u32, seed: u64) -> u64 {
    let mut r = SplitMix(seed ^ 0xabcdef);
    crate::oracle::int::prime64(bits, &mut r)
}
