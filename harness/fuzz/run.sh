#!/bin/bash
# Thorough-tier supplement: coverage-guided fuzzing of the byte-level targets of one property.
#   fuzz/run.sh <ID> <SEED>
# Each target runs under one libFuzzer supervisor in fork mode with JOBS children (fresh corpus directory seeded with the committed
# golden corpus, -seed derived from VERIF_SEED) for YQV_FUZZ_SECONDS (default 240) seconds.  The oracle runs
# inside the target; a crash artifact is converted into a normal replay file by `yqv <ID> --fuzz-artifact`.
set -u
HERE="$(cd "$(dirname "$0")" && pwd)"
ROOT="$(cd "$HERE/../.." && pwd)"
ID="$1"; SEED="${2:-1}"
case "$ID" in
    C06) TARGETS="fz_prime" ;;
    C07) TARGETS="fz_mont" ;;
    C08) TARGETS="fz_div" ;;
    C09) TARGETS="fz_gcd" ;;
    C10) TARGETS="fz_poly" ;;
    C11) TARGETS="fz_rel" ;;
    C14) TARGETS="fz_gauss" ;;
    C15) TARGETS="fz_curve" ;;
    C19) TARGETS="fz_lin" ;;
    *) exit 0 ;;
esac
"$HERE/build.sh" || { echo "INCONCLUSIVE property=$ID fuzz targets could not be built"; exit 2; }
BIN="$HERE/target/x86_64-unknown-linux-gnu/release"
SECS="${YQV_FUZZ_SECONDS:-240}"
JOBS="${YQV_FUZZ_JOBS:-8}"
WORK="${YQV_TARGET:-$ROOT/target}/fuzz-run/$ID"
rm -rf "$WORK"; mkdir -p "$WORK"
rc=0
total=0
stalled=0
for t in $TARGETS; do
    # One libFuzzer supervisor per target in fork mode: JOBS child processes share a corpus, and a timeout or
    # out-of-memory input (almost always a stall of the byte decoder, see below) does not end the campaign;
    # a crash (= oracle failure inside the target) does.
    mkdir -p "$WORK/$t/corpus" "$WORK/$t/art"
    [ -d "$HERE/seeds/$t" ] && cp "$HERE/seeds/$t"/* "$WORK/$t/corpus/" 2>/dev/null
    "$BIN/$t" "$WORK/$t/corpus" -seed=$((SEED * 1000 + 1)) -max_total_time="$SECS" -len_control=0 -max_len=400 -timeout=10 \
        -fork="$JOBS" -ignore_timeouts=1 -ignore_ooms=1 -ignore_crashes=0 \
        -artifact_prefix="$WORK/$t/art/" >"$WORK/$t/log" 2>&1
    n=$(grep -a -o "^#[0-9]*: cov" "$WORK/$t/log" | tail -1 | tr -dc 0-9)
    total=$((total + ${n:-0}))
    for a in "$WORK/$t/art"/crash-* "$WORK/$t/art"/timeout-* "$WORK/$t/art"/oom-*; do
        [ -e "$a" ] || continue
        # A timeout-* artifact is almost always a stall of the byte decoder (proptest's PassThrough RNG
        # returns zeros once its stream is used up and rejection sampling then spins), not of the library:
        # the conversion is given 90 s; if it stalls too, or if the case passes the oracle when replayed,
        # the artifact is counted and kept, but it is not a verdict.
        timeout -k 5 90 "${YQV_TARGET:-$ROOT/target}/opt/yqv" "$ID" --fuzz-artifact "$t" "$a"
        r=$?
        case "$(basename "$a")" in timeout-*|oom-*) if [ $r -ne 1 ]; then stalled=$((stalled + 1)); r=0; fi ;; esac
        if [ $r -eq 124 ] || [ $r -eq 137 ]; then stalled=$((stalled + 1)); r=0; fi
        if [ $r -eq 1 ]; then rc=1; elif [ $r -ne 0 ] && [ $rc -eq 0 ]; then rc=$r; fi
    done
done
# record what the campaign covered in the evidence file of the thorough run
python3 - "${YQV_SCRATCH:-$ROOT}/evidence/$ID.json" "$total" "$SECS" "$JOBS" "$TARGETS" "$rc" "$stalled" <<'PY'
import json, sys
p, total, secs, jobs, targets, rc, stalled = sys.argv[1], int(sys.argv[2]), int(sys.argv[3]), int(sys.argv[4]), sys.argv[5], int(sys.argv[6]), int(sys.argv[7])
try:
    e = json.load(open(p))
except Exception:
    sys.exit(0)
e['coverage']['libfuzzer'] = {"targets": targets.split(), "executions": total, "seconds_per_job": secs, "jobs": jobs, "decoder_stalls_not_judged": stalled,
                             "note": "coverage-guided; approximately reproducible from -seed; the saved artifact is the reproducible unit"}
e['coverage']['evaluations'] += total
if rc == 1:
    e['violations'] = e.get('violations', 0) + 1
json.dump(e, open(p, 'w'), indent=1)
PY
echo "FUZZ property=$ID targets=\"$TARGETS\" executions=$total decoder_stalls=$stalled exit=$rc"
exit $rc
