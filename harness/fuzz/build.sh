#!/bin/bash
# Build the libFuzzer targets (nightly, ASan) against /repo's current working tree.
set -u
cd "$(dirname "$0")/.."
export CARGO_NET_OFFLINE=true
export RUSTFLAGS="--cfg yamaquasi_verif"
log="$(mktemp)"
if ! cargo +nightly fuzz build >"$log" 2>&1; then
    echo "fuzz build failed:"; grep -E "^error" -A8 "$log" | head -40; rm -f "$log"; exit 2
fi
rm -f "$log"
