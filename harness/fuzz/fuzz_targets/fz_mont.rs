#![no_main]
//! libFuzzer target for C07: bytes -> (modulus, operands, operation program | double-width value).
use libfuzzer_sys::fuzz_target;

static HOOK: std::sync::Once = std::sync::Once::new();

fuzz_target!(|data: &[u8]| {
    // wrap libFuzzer's abort-on-panic hook: panics caught by the oracle (guard/catch) stay silent
    HOOK.call_once(yqv::engine::install_panic_hook);
    let mut l = yqv::engine::Local::new();
    let r = match yqv::fuzzdec::mont_case(data) {
        Some(yqv::fuzzdec::MontCase::Ops(c)) => yqv::props::c07::check_ops(&c, &mut l),
        Some(yqv::fuzzdec::MontCase::Redc(c)) => yqv::props::c07::check_redc(&c, &mut l),
        Some(yqv::fuzzdec::MontCase::Mg64(c)) => yqv::props::c07::check_mg64(&c, &mut l),
        None => Ok(()),
    };
    if let Err(f) = r {
        if !f.class.starts_with("HARNESS|") && !f.class.starts_with("PROBE|") {
            panic!("YQV-FUZZ-VIOLATION {} :: {}", f.sig(), f.what);
        }
    }
});
