#![no_main]
//! libFuzzer target fz_rel: bytes -> case (see harness/src/fuzzdec.rs) -> the same oracle as the proptest side.
use libfuzzer_sys::fuzz_target;

fuzz_target!(|data: &[u8]| {
    yqv::fuzzdec::run_target("fz_rel", data);
});
