#![no_main]
//! libFuzzer target for C09: bytes -> (instantiation, a, b) -> the same oracle as the proptest side.
use libfuzzer_sys::fuzz_target;

static HOOK: std::sync::Once = std::sync::Once::new();

fuzz_target!(|data: &[u8]| {
    // wrap libFuzzer's abort-on-panic hook: panics caught by the oracle (guard/catch) stay silent
    HOOK.call_once(yqv::engine::install_panic_hook);
    if let Some(c) = yqv::fuzzdec::gcd_case(data) {
        let mut l = yqv::engine::Local::new();
        if let Err(f) = yqv::props::c09::check(&c, &mut l) {
            if !f.class.starts_with("HARNESS|") {
                panic!("YQV-FUZZ-VIOLATION {} :: {}", f.sig(), f.what);
            }
        }
    }
});
